"""C20 - schema-aware evaluation assigns sound XSD types and never changes node selection.

Generated schemas (rv/models/xsdgen.py) x generated valid instances.  The trusted schema processor
(xmlschema) validates and decodes; the derivation chains come from the generator's own schema spec
and the XSD Part 2 built-in hierarchy (no xmlschema / elementpath code involved there).
"""
import collections
import copy
import json
import struct
from decimal import Decimal
from xml.etree import ElementTree as ET

import lxml.etree as LE
import xmlschema

from ..core import Outcome, canon
from ..engine import call, type_label, PARSERS
from ..models import xsdgen as G

import elementpath
from elementpath import XPathContext
from elementpath.datatypes import UntypedAtomic
from elementpath.xpath_nodes import ElementNode, AttributeNode, TextNode, DocumentNode

PROPERTY = 'C20'
LEVEL = 'exploration'
RULE = ('random XSD 1.0/1.1 schemas (2-6 global simple types: restrictions with facets, lists, unions; 1-3 '
        'simple-content complex types with typed/defaulted attributes; nested sequence/choice groups with '
        're-used element names; nillable/default/fixed; xsi:type to derived global or built-in types) built '
        'with xmlschema; instances generated from the schema and kept only if schema.is_valid(); trees as '
        'ElementTree Element / ElementTree document / lxml; XPath 2.0 and 3.1 parsers. A case is one '
        '(schema, instance, focus nodes, path corpus); non-trivial when at least one typed simple-content '
        'node was compared with the decoded value; distinct by canonical JSON of the case.')
ASSUMPTIONS = [
    'xmlschema 4.3.1 is the trusted validator and decoder (whitespace normalisation, union member choice)',
    'xmlschema decodes date/time/duration/binary text with the datatype classes of the elementpath under test: '
    'for those families only the class and self-consistency are decided, not the calendar arithmetic (C11)',
    'attributes with a default/fixed value that are absent from the instance belong to the schema-validated '
    'data model (XDM 6.2.2, [attributes] of the PSVI): selection invariance is checked against the schema-less '
    'evaluation of a copy of the instance in which those attributes are materialised; the order of attribute '
    'nodes of one element is not compared (implementation-dependent)',
    'xs:float values: single or double rounding of the lexical value are both accepted',
    'union member types are not used as targets of element(*, T) tests (XPath 2.0 and 3.1 differ)',
]

XS = '{%s}' % G.XSD_NS
XSI_NIL = '{%s}nil' % G.XSI_NS
XSI_TYPE = '{%s}type' % G.XSI_NS
NSMAP = {'xs': G.XSD_NS, 'xsi': G.XSI_NS, 't': G.TNS}

# ------------------------------------------------------------------ schema cache
_SCHEMAS = collections.OrderedDict()


def get_schema(version, text):
    key = (version, text)
    if key in _SCHEMAS:
        _SCHEMAS.move_to_end(key)
        return _SCHEMAS[key]
    cls = xmlschema.XMLSchema11 if version == '1.1' else xmlschema.XMLSchema10
    try:
        s = cls(text)
    except (xmlschema.XMLSchemaException, ValueError, KeyError, TypeError, AttributeError, RecursionError):
        s = None
    _SCHEMAS[key] = s
    while len(_SCHEMAS) > 48:
        _SCHEMAS.popitem(last=False)
    return s


def xtype_of(schema, spec, ref):
    if ref[0] == 'b':
        return schema.maps.types[XS + ref[1]]
    return schema.maps.types[('{%s}%s' % (G.TNS, ref[1])) if spec['ns'] else ref[1]]


def clark(spec, local):
    return '{%s}%s' % (G.TNS, local) if spec['ns'] else local


# ------------------------------------------------------------------ generation helpers (run side)
def inline_sdefs(spec):
    out = []
    for slot in G.iter_value_slots(spec):
        t = slot['type']
        if isinstance(t, dict) and t['k'] in ('restr', 'list', 'union'):
            out.append(t)
    return out


def make_validator(spec):
    """validator(t, text) backed by a types-only schema (inline types added as extra globals)"""
    tmp = copy.deepcopy(spec)
    inl = inline_sdefs(spec)
    names = {}
    for i, sd in enumerate(inl):
        names[canon(sd)] = '_A%d' % i
        tmp['stypes'].append(['_A%d' % i, sd])
    schema = get_schema(spec['v'], G.render_schema(tmp, types_only=True))
    if schema is None:
        return None

    def valid(t, text):
        if isinstance(t, dict):
            t = ['g', names[canon(t)]]
        try:
            return xtype_of(schema, spec, t).is_valid(text)
        except Exception:
            return False
    return valid


def finish_schema(r, spec):
    """fill default/fixed placeholders with validated values; -> (validator) or None if unusable"""
    valid = make_validator(spec)
    if valid is None:
        return None
    T = G.Types(spec)
    for slot in G.iter_value_slots(spec):
        for k in ('default', 'fixed'):
            if slot.get(k) is True:
                st = T.simple_of(slot['type'])
                v = G.valid_value(r, T, st, valid) if st is not None else None
                if v is not None and 'name' in slot:
                    # attribute values are whitespace-normalised by the XML parser anyway
                    v = v.replace('\t', ' ').replace('\n', ' ')
                slot[k] = v
    return valid


def build_tree(spec, inst, lib, indent):
    text = G.render_instance(spec, inst, indent)
    if lib == 'lxml':
        return LE.fromstring(text.encode('utf-8'))
    root = ET.fromstring(text)
    return root


def g_paths(r, spec, inst):
    """structural path corpus over the names of the instance (no value-dependent predicates)"""
    pre = 't:' if spec['ns'] else ''
    names, attrs = [], []

    def rec(n):
        if n[0] not in names:
            names.append(n[0])
        for k, _ in n[1]:
            if not k.startswith('xsi:') and k not in attrs:
                attrs.append(k)
        for c in n[3]:
            rec(c)
    rec(inst)
    for a in G.ATTR_NAMES[:2]:
        if a not in attrs:
            attrs.append(a)

    def nm():
        return pre + r.choice(names)
    ax = ['ancestor', 'ancestor-or-self', 'following-sibling', 'preceding-sibling', 'following', 'preceding',
          'descendant', 'descendant-or-self', 'parent', 'child', 'self']
    templates = [
        lambda: '//' + nm(), lambda: '//*', lambda: '/*/*', lambda: '//@*', lambda: '//@' + r.choice(attrs),
        lambda: '//*[@%s]' % r.choice(attrs), lambda: '//*[not(@*)]', lambda: '//%s/@*' % nm(),
        lambda: '//*[%d]' % r.randint(1, 3), lambda: '//*[last()]', lambda: '//%s[%d]' % (nm(), r.randint(1, 2)),
        lambda: '//%s/%s::*' % (nm(), r.choice(ax)), lambda: '//%s/%s::%s' % (nm(), r.choice(ax), nm()),
        lambda: '//@*/..', lambda: '//@%s/parent::*' % r.choice(attrs), lambda: '//text()', lambda: '//node()',
        lambda: '//%s | //%s' % (nm(), nm()), lambda: '(//%s)[%d]' % (nm(), r.randint(1, 3)),
        lambda: '//*[count(*) > %d]' % r.randint(0, 2), lambda: '//*[count(@*) = %d]' % r.randint(0, 2),
        lambda: '//*[self::%s or self::%s]' % (nm(), nm()), lambda: '//*[%s]' % nm(),
        lambda: '/*/%s/%s' % (nm(), nm()), lambda: '//%s//@*' % nm(), lambda: '//*[@*][%d]' % r.randint(1, 2),
        lambda: '//*/attribute::%s' % r.choice(attrs), lambda: '//*[position() = last()]/@*',
        lambda: '//@*[%d]' % r.randint(1, 2), lambda: '//*[@*[%d]]' % r.randint(2, 3),
        lambda: '//element()', lambda: '//attribute()', lambda: '/descendant::%s[%d]' % (nm(), r.randint(1, 3)),
        lambda: '//*[not(*)]', lambda: '//%s/ancestor::*[1]' % nm(), lambda: '//*[%s and %s]' % (nm(), nm()),
    ]
    out = []
    for f in r.sample(templates, 12):
        out.append(f())
    return out


# ------------------------------------------------------------------ oracle side: walking the instance
class Rec:
    __slots__ = ('kind', 'elem', 'eidx', 'path', 'name', 't', 'xtype', 'nilled', 'text', 'tags', 'defaulted',
                 'tdesc', 'union_derived_member')


def local(tag):
    return tag.rsplit('}', 1)[-1]


def find_decl(group, name):
    for p in group['parts']:
        if 'el' in p:
            if p['el'] == name:
                return p
        else:
            d = find_decl(p, name)
            if d is not None:
                return d
    return None


def resolve_xsi_type(spec, value):
    value = value.strip()
    if value.startswith('xs:'):
        return ['b', value[3:]]
    if value.startswith('t:'):
        return ['g', value[2:]]
    return ['g', value]


def type_tags(T, t):
    d = T.definition(t)
    tags = []
    if d[0] == 'c':
        tags.append('simple-content' if d[1]['k'] == 'sc' else 'model')
        st = T.simple_of(t)
        if st is None:
            return tags
        t2 = st
    else:
        t2 = t
    var = T.variety(t2)
    d2 = T.definition(t2)
    if d2[0] == 'b':
        tags.append('builtin-' + var)
    elif var == 'atomic':
        tags.append('restriction')
    else:
        tags.append(var if d2[1]['k'] != 'restr' else 'restricted-' + var)
    if d2[0] != 'b' and d2[2] is None:
        tags.append('anonymous')
    return tags


def walk(spec, T, schema, root):
    """-> list of Rec for every element and attribute (incl. defaulted ones), document order"""
    recs = []
    elems = list(root.iter())
    index = {id(e): i for i, e in enumerate(elems)}

    def visit(elem, decl, xdecl, path):
        t, xtype = decl['type'], xdecl.type
        tags = []
        if XSI_TYPE in elem.attrib:
            t = resolve_xsi_type(spec, elem.attrib[XSI_TYPE])
            xtype = xtype_of(schema, spec, t)
            tags.append('xsi:type')
        rec = Rec()
        rec.kind, rec.elem, rec.eidx, rec.path, rec.name = 'element', elem, index[id(elem)], path, local(elem.tag)
        rec.t, rec.xtype = t, xtype
        rec.nilled = elem.attrib.get(XSI_NIL, '').strip() in ('true', '1')
        rec.defaulted = False
        d = T.definition(t)
        tags = type_tags(T, t) + tags
        text = elem.text
        vc = decl.get('fixed') if isinstance(decl.get('fixed'), str) else decl.get('default')
        if rec.nilled:
            tags.append('nilled')
        elif isinstance(vc, str) and not text and not len(elem):
            text = vc
            tags.append('fixed' if isinstance(decl.get('fixed'), str) else 'default')
        elif decl.get('nillable'):
            tags.append('nillable')
        rec.text = text or ''
        rec.tags = tags
        recs.append(rec)
        if d[0] == 'c':
            decls = {a['name']: a for a in T.attrs_of(t)}
            for k in elem.attrib:
                if k.startswith('{'):
                    continue
                a = decls[k]
                ar = Rec()
                ar.kind, ar.elem, ar.eidx, ar.path, ar.name = 'attribute', elem, rec.eidx, path + '/@' + k, k
                ar.t, ar.xtype, ar.nilled, ar.text = a['type'], xtype.attributes[k].type, False, elem.attrib[k]
                ar.tags = type_tags(T, a['type']) + (['fixed-present'] if isinstance(a.get('fixed'), str) else [])
                ar.defaulted = False
                recs.append(ar)
            for a in T.attrs_of(t):
                vc = a.get('fixed') if isinstance(a.get('fixed'), str) else a.get('default')
                if isinstance(vc, str) and a['name'] not in elem.attrib:
                    ar = Rec()
                    ar.kind, ar.elem, ar.eidx, ar.name = 'attribute', elem, rec.eidx, a['name']
                    ar.path = path + '/@' + a['name']
                    ar.t, ar.xtype, ar.nilled, ar.text = a['type'], xtype.attributes[a['name']].type, False, vc
                    ar.tags = type_tags(T, a['type']) + ['defaulted']
                    ar.defaulted = True
                    recs.append(ar)
            if d[1]['k'] == 'model':
                seen = collections.Counter()
                for child in elem:
                    seen[child.tag] += 1
                    k = seen[child.tag]
                    cd = find_decl(d[1]['group'], local(child.tag))
                    xcd = None
                    for xe in xtype.content.iter_elements():
                        if xe.name == child.tag:
                            xcd = xe
                            break
                    # name test + position among same-name siblings: a `*[k]` step would be typed statically
                    # from the k-th declaration of the content model, not from the instance
                    visit(child, cd, xcd, '%s/%s%s[%d]' % (path, 't:' if spec['ns'] else '', local(child.tag), k))

    # the root step is a name test: `/*` is itself affected by a selection defect under a schema
    visit(root, {'el': 'root', 'type': spec['root']}, schema.elements['root'],
          '/' + ('t:' if spec['ns'] else '') + 'root')
    for rec in recs:
        rec.tdesc = describe_type(T, rec.t)
        rec.union_derived_member = False
    return recs, elems


# ------------------------------------------------------------------ expected typed values
CLASSNAMES = {
    'date': {'Date', 'Date10'}, 'dateTime': {'DateTime', 'DateTime10', 'DateTimeStamp'}, 'time': {'Time'},
    'gYear': {'GregorianYear', 'GregorianYear10'}, 'gYearMonth': {'GregorianYearMonth', 'GregorianYearMonth10'},
    'gMonth': {'GregorianMonth'}, 'gMonthDay': {'GregorianMonthDay'}, 'gDay': {'GregorianDay'},
    'duration': {'Duration', 'DayTimeDuration', 'YearMonthDuration'}, 'dayTimeDuration': {'DayTimeDuration'},
    'yearMonthDuration': {'YearMonthDuration'}, 'dateTimeStamp': {'DateTimeStamp'}, 'anyURI': {'AnyURI'},
    'hexBinary': {'HexBinary'}, 'base64Binary': {'Base64Binary'},
}


VERSION_VARIANTS = {'Date', 'Date10', 'DateTime', 'DateTime10', 'GregorianYear', 'GregorianYear10',
                    'GregorianYearMonth', 'GregorianYearMonth10'}


def rec_version(rec):
    return getattr(rec, 'xsd_version', '?')


def accept_labels(b):
    """labels (engine.type_label) of values that are instances of built-in atomic type b"""
    if b in CLASSNAMES:
        return CLASSNAMES[b]
    return {b} | set(G.descendants(b))


def glabel(v):
    return type_label(v)


def single(x):
    try:
        return struct.unpack('f', struct.pack('f', x))[0]
    except (OverflowError, struct.error):
        return x


def value_equal(v, d, b):
    fam = G.family(b)
    try:
        if fam == 'integer':
            return not isinstance(v, (bool, float, str)) and v == d
        if fam == 'decimal':
            return not isinstance(v, (bool, float, str)) and Decimal(v) == Decimal(d)
        if fam in ('float', 'double'):
            if isinstance(v, (bool, str)) or not isinstance(v, (float, int, Decimal)):
                return False
            fv, fd = float(v), float(d)
            if fv != fv or fd != fd:
                return fv != fv and fd != fd
            if fv == fd and (fv != 0 or struct.pack('d', fv) == struct.pack('d', fd)):
                return True
            return fam == 'float' and (fv == single(fd) or single(fv) == single(fd))
        if fam == 'boolean':
            return isinstance(v, bool) and v == d
        if fam == 'string' or fam == 'anyURI':
            return isinstance(v, str) and str(v) == str(d) or (fam == 'anyURI' and str(v) == str(d))
        if v == d:
            return True
        return type(v).__name__.rstrip('10') == type(d).__name__.rstrip('10') and str(v) == str(d)
    except Exception:
        return False


def expected_items(spec, T, schema, t, xtype, text, flags):
    """-> list of (decoded value, nearest built-in) or None when the oracle cannot decide"""
    st = T.simple_of(t)
    if st is None:
        return None
    xst = xtype if xtype.is_simple() else xtype.content
    try:
        dec = xst.decode(text, datetime_types=True, binary_types=True)
    except Exception:
        return None

    def member_builtin(ref_or_def, s):
        var = T.variety(ref_or_def)
        if var == 'atomic':
            return T.nearest_builtin(ref_or_def)
        if var == 'union':
            for m in T.members(ref_or_def):
                try:
                    if xtype_of(schema, spec, m).is_valid(s):
                        if m[0] != 'b':
                            flags.append('derived-member')
                        return T.nearest_builtin(m)
                except Exception:
                    return None
        return None

    var = T.variety(st)
    if var == 'list':
        if not isinstance(dec, list):
            return None
        toks = text.split()
        if len(toks) != len(dec):
            return None
        it = T.item_type(st)
        out = []
        for s, dv in zip(toks, dec):
            b = member_builtin(it, s)
            if b is None:
                return None
            out.append((dv, b))
        return out
    if isinstance(dec, list):
        return None
    b = member_builtin(st, text)
    if b is None:
        return None
    if dec is None:
        return None
    return [(dec, b)]


def class_key(b, got):
    p = G.primitive(b)
    plabel = {'string': 'string', 'decimal': 'decimal'}.get(p, p)
    if b != p and (got == plabel or (p in CLASSNAMES and got in CLASSNAMES[p])):
        return 'C20/typed-value/class/derived-decoded-as-primitive'
    fam = G.family(b)
    exp = ('integer-subtype' if b != 'integer' else 'integer') if fam == 'integer' else \
        ('string-subtype' if b != 'string' else 'string') if fam == 'string' else b
    return 'C20/typed-value/class/%s-as-%s' % (exp, got)


def variety_tag(rec):
    for v in ('union', 'list'):
        if any(v in x for x in rec.tags):
            return v
    return 'atomic'


def describe_type(T, t, depth=0):
    if depth > 6:
        return '...'
    d = T.definition(t)
    if d[0] == 'b':
        return 'xs:' + d[1]
    name = d[2] or 'anon'
    df = d[1]
    if df['k'] == 'restr':
        return '%s=restr(%s;%s)' % (name, describe_type(T, df['base'], depth + 1),
                                    ','.join('%s=%s' % (f, v) for f, v in df['facets']))
    if df['k'] == 'list':
        return '%s=list(%s)' % (name, describe_type(T, df['item'], depth + 1))
    if df['k'] == 'union':
        return '%s=union(%s)' % (name, '|'.join(describe_type(T, m, depth + 1) for m in df['members']))
    if df['k'] == 'sc':
        return '%s=ext(%s)' % (name, describe_type(T, df['base'], depth + 1))
    return name + '=model'


def xsi_default(rec):
    return 'xsi:type' in rec.tags and ('default' in rec.tags or 'fixed' in rec.tags)


class _TaggedOut:
    """failures on a value whose type is a RESTRICTION OF A LIST type get their own keys: the decoder finds the item
    type of such a type through a different path (listed finding), whatever the symptom"""

    def __init__(self, out, rec):
        self._out, self._rec = out, rec

    def fail(self, key, detail):
        if 'restricted-list' in self._rec.tags and key.startswith('C20/typed-value/'):
            key = 'C20/typed-value/restriction-of-list/' + key[len('C20/typed-value/'):]
        self._out.fail(key, detail)

    def __getattr__(self, name):
        return getattr(self._out, name)


def compare_typed(out, rec, exp, got_outcome, via):
    """returns 'ok' | 'class' | 'bad'"""
    out = _TaggedOut(out, rec)
    if got_outcome[0] != 'ok':
        if got_outcome[:2] == ('err', 'FOTY0012') and not exp and via == 'data()':
            out.fail('C20/data/empty-typed-value/err:FOTY0012',
                     '%s %s text=%r tags=%s type=%s: typed value is the empty sequence, fn:data raised FOTY0012' % (
                         via, rec.path, rec.text, rec.tags, rec.tdesc))
            # the typed value itself is not wrong (fn:data is): the kind tests of this node stay decidable
            return 'data-raises'
        if rec.union_derived_member:
            out.fail('C20/typed-value/union/derived-member-skipped', '%s %s text=%r type=%s -> %r' % (
                via, rec.path, rec.text, rec.tdesc, got_outcome))
            return 'bad'
        if xsi_default(rec):
            out.fail('C20/typed-value/value-constraint-ignored-with-xsi-type', '%s %s default/fixed=%r tags=%s type=%s -> %r'
                     % (via, rec.path, rec.text, rec.tags, rec.tdesc, got_outcome))
            return 'bad'
        out.fail('C20/typed-value/error/%s/%s%s' % (
            'nilled' if rec.nilled else variety_tag(rec) + ':' + (G.family(exp[0][1]) if exp else 'empty'),
            ':'.join(got_outcome[:2]) + ('@' + got_outcome[2] if got_outcome[0] == 'exc' else ''),
            '/padded' if rec.text != rec.text.strip() else ''),
                 '%s %s text=%r tags=%s type=%s -> %r' % (via, rec.path, rec.text, rec.tags, rec.tdesc, got_outcome))
        return 'bad'
    v = got_outcome[1]
    items = list(v) if isinstance(v, (list, tuple)) else ([] if v is None else [v])
    if rec.nilled:
        if items:
            out.fail('C20/typed-value/nilled/not-empty',
                     '%s %s: nilled element has typed value %r (expected empty sequence)' % (via, rec.path, items))
            return 'bad'
        return 'ok'
    if len(items) != len(exp):
        key = 'C20/typed-value/length/%s' % variety_tag(rec)
        if rec.union_derived_member:
            key = 'C20/typed-value/union/derived-member-skipped'
        elif xsi_default(rec):
            key = 'C20/typed-value/value-constraint-ignored-with-xsi-type'
        out.fail(key, '%s %s text=%r tags=%s type=%s: %d items expected %d: %r' % (
            via, rec.path, rec.text, rec.tags, rec.tdesc, len(items), len(exp), items[:5]))
        return 'bad'
    status = 'ok'
    for x, (d, b) in zip(items, exp):
        lab = glabel(x)
        if not value_equal(x, d, b):
            fam = G.family(b)
            if isinstance(x, bool) and fam != 'boolean':
                out.fail('C20/typed-value/union/boolean-member-accepts-non-boolean-text', '%s %s text=%r type=%s: got %r expected %r (a boolean member '
                         'type accepted text that is not a boolean lexical)' % (via, rec.path, rec.text, rec.tdesc, x, d))
                return 'bad'
            if rec.union_derived_member:
                out.fail('C20/typed-value/union/derived-member-skipped', '%s %s text=%r type=%s: got %r (%s) expected %r'
                         % (via, rec.path, rec.text, rec.tdesc, x, lab, d))
                return 'bad'
            if variety_tag(rec) == 'union' and lab not in accept_labels(b) and not xsi_default(rec):
                # a member type earlier in the union accepted text outside its lexical space
                out.fail('C20/typed-value/union/wrong-member' + (
                    '/anyURI-member-stricter-than-its-lexical-space' if b == 'anyURI' else ''),
                    '%s %s text=%r type=%s: got %r (%s) expected %r (xs:%s)'
                         % (via, rec.path, rec.text, rec.tdesc, x, lab, d, b))
                return 'bad'
            if xsi_default(rec):
                out.fail('C20/typed-value/value-constraint-ignored-with-xsi-type',
                         '%s %s default/fixed=%r tags=%s type=%s: got %r (%s) expected %r' % (
                             via, rec.path, rec.text, rec.tags, rec.tdesc, x, lab, d))
                return 'bad'
            ws = fam == 'string' and isinstance(x, str) and ' '.join(str(x).split()) == ' '.join(str(d).split())
            out.fail('C20/typed-value/value/%s' % ('string-whitespace' if ws else fam),
                     '%s %s text=%r builtin=%s tags=%s type=%s: got %r (%s) expected %r' % (
                         via, rec.path, rec.text, b, rec.tags, rec.tdesc, x, lab, d))
            return 'bad'
        if type(d).__name__ in VERSION_VARIANTS and type(x).__name__ in VERSION_VARIANTS and \
                type(x).__name__ != type(d).__name__:
            # XSD 1.0 and 1.1 have different value classes (year 0000, year numbering): the schema's version decides
            out.fail('C20/typed-value/class/xsd-version-variant', '%s %s text=%r type=%s: value %r is a %s, the schema '
                     'processor (XSD %s) decodes a %s' % (via, rec.path, rec.text, rec.tdesc, x, type(x).__name__,
                                                          rec_version(rec), type(d).__name__))
            status = 'class'
        if lab not in accept_labels(b) and rec.union_derived_member and \
                lab != {'string': 'string'}.get(G.primitive(b), G.primitive(b)):
            out.fail('C20/typed-value/union/derived-member-skipped', '%s %s text=%r type=%s: got %r (%s) expected an xs:%s'
                     % (via, rec.path, rec.text, rec.tdesc, x, lab, b))
            status = 'class'
        elif lab not in accept_labels(b) and variety_tag(rec) == 'union' and not rec.union_derived_member:
            out.fail('C20/typed-value/union/wrong-member' + (
                '/anyURI-member-stricter-than-its-lexical-space' if b == 'anyURI' else ''),
                '%s %s text=%r type=%s: got %r (%s): the first member type that '
                     'validates the text is xs:%s' % (via, rec.path, rec.text, rec.tdesc, x, lab, b))
            status = 'class'
        elif lab not in accept_labels(b):
            out.fail(class_key(b, lab), '%s %s text=%r tags=%s type=%s: value %r has class %s, nearest built-in ancestor xs:%s'
                     % (via, rec.path, rec.text, rec.tags, rec.tdesc, x, lab, b))
            status = 'class'
    return status


# ------------------------------------------------------------------ engine access
class Eng:
    def __init__(self, case, spec, schema, root):
        self.version = case['parser']
        self.parser = PARSERS[self.version]
        self.spec, self.schema, self.root = spec, schema, root
        self.ns = dict(NSMAP) if spec['ns'] else {'xs': G.XSD_NS, 'xsi': G.XSI_NS}
        self.proxy = schema.xpath_proxy
        self.kind = case.get('root', 'elem')
        if self.kind == 'tree' and not isinstance(root, LE._Element):
            self.sel_root = ET.ElementTree(root)
        elif self.kind == 'tree':
            self.sel_root = root.getroottree()
        else:
            self.sel_root = root

    def nodes(self, expr, schema=True, root=None):
        """the selected XPath nodes themselves (token API; select() converts them to elements/strings)"""
        def f():
            kw = {'schema': self.proxy} if schema else {}
            tok = self.parser(self.ns, **kw).parse(expr)
            ctx = XPathContext(self.sel_root if root is None else root, self.ns,
                               schema=self.proxy if schema else None)
            return list(tok.select(ctx))
        return call(f)

    def select(self, expr, schema=True, root=None):
        kw = {'schema': self.proxy} if schema else {}
        return call(elementpath.select, self.sel_root if root is None else root, expr,
                    namespaces=self.ns, parser=self.parser, **kw)


def lit_string(s):
    return "'" + s.replace("'", "''") + "'"


def type_qname(spec, entry):
    if entry[0] == 'builtin':
        return 'xs:' + entry[1]
    return ('t:' if spec['ns'] else '') + entry[1]


UNRELATED = ['string', 'boolean', 'date', 'double', 'int', 'decimal', 'token', 'duration', 'anyURI', 'hexBinary',
             'unsignedByte', 'gYear']


def kind_tests(out, eng, T, rec, status):
    spec = eng.spec
    d = T.definition(rec.t)
    if d[0] == 'c' and d[1]['k'] == 'model':
        return
    chain = T.complex_chain(rec.t) if d[0] == 'c' else T.simple_chain(rec.t)
    st = T.simple_of(rec.t)
    var = T.variety(st)
    fn = 'element' if rec.kind == 'element' else 'attribute'
    tests = []   # (relation, type qname, expected)
    rels = []
    for i, entry in enumerate(chain):
        if entry[0] == 'builtin' and entry[1] in G.BUILTIN_LISTS:
            continue    # whether xs:NMTOKENS is an in-scope schema type of XPath is host-language defined
        rel = ('declared' if i == 0 and not (d[0] != 'b' and d[2] is None) else
               'base-user' if entry[0] == 'user' else 'base-builtin')
        rels.append((rel, type_qname(spec, entry), entry))
    # declared, nearest user base, nearest built-in, the primitive
    picked = []
    for rel in ('declared', 'base-user', 'base-builtin'):
        for x in rels:
            if x[0] == rel:
                picked.append(x)
                break
    if rels and rels[-1] not in picked:
        picked.append(rels[-1])
    for rel, qn_, entry in picked:
        tests.append((rel, qn_, True))
    if var == 'atomic':
        tests.append(('anyAtomicType', 'xs:anyAtomicType', True))
    tests.append(('anySimpleType', 'xs:anySimpleType', True))
    if rec.kind == 'element':
        tests.append(('anyType', 'xs:anyType', True))
    if var == 'atomic':
        b = T.nearest_builtin(st)
        lineage = {b} | set(G.ancestors(b))
        unrel = [u for u in UNRELATED if u not in lineage and G.primitive(u) != G.primitive(b)]
        k = (rec.eidx + len(rec.name)) % len(unrel)
        tests.append(('unrelated', 'xs:' + unrel[k], False))
        sib = [x for x in G.descendants(G.primitive(b)) if x not in lineage and x not in G.ONLY_11
               and b not in G.ancestors(x)]
        if sib:
            tests.append(('unrelated-sibling', 'xs:' + sib[rec.eidx % len(sib)], False))
    for rel, qn_, expv in tests:
        nilled_variants = [('', expv)]
        if rec.nilled:
            nilled_variants = [('', False), ('?', expv)]
        for occ, want in nilled_variants:
            if rec.kind == 'attribute' and occ:
                continue
            expr = '%s instance of %s(*, %s%s)' % (rec.path, fn, qn_, occ)
            res = eng.select(expr)
            out.dim('kind_test', '%s:%s%s' % (fn, rel, ':nilled' + occ if rec.nilled else ''))
            relk = rel + ('/nilled' + ('-optional' if occ else '') if rec.nilled else '')
            if res[0] != 'ok':
                mech = ':'.join(res[:2]) + ('@' + res[2] if res[0] == 'exc' else '')
                if status == 'bad' and res[0] == 'err':
                    out.dim('kind_test_masked', 'typed-value-wrong')
                elif not spec['ns'] and qn_.find(':') < 0 and res[0] == 'err':
                    out.fail('C20/kind-test/no-namespace-type-name/' + mech, '%s -> %r' % (expr, res))
                elif res[0] == 'exc':
                    out.fail('C20/kind-test/%s/%s' % (fn, mech), '%s -> %r (tags=%s type=%s)' % (expr, res, rec.tags, rec.tdesc))
                else:
                    out.fail('C20/kind-test/%s/%s/%s' % (fn, relk, mech),
                             '%s -> %r (tags=%s type=%s)' % (expr, res, rec.tags, rec.tdesc))
                continue
            got = res[1]
            if got is want:
                continue
            if status == 'class' and want and rel in ('base-user', 'base-builtin', 'declared') \
                    and not rec.nilled:
                # consequence of the value having the class of a more general type (already reported)
                out.dim('kind_test_masked', rel)
                continue
            if status == 'bad':
                out.dim('kind_test_masked', 'typed-value-wrong')
                continue
            out.fail('C20/kind-test/%s/%s/%s' % (fn, relk, 'false-negative' if want else 'false-positive'),
                     '%s -> %r expected %r (text=%r tags=%s type=%s)' % (expr, got, want, rec.text, rec.tags, rec.tdesc))


def xdouble_literal(x):
    s = repr(float(x))
    return s if 'e' in s else s + 'e0'


def expect(out, eng, expr, want, key, rec, check=None):
    res = eng.select(expr)
    out.dim('arith', key.split('/')[2] if key.count('/') >= 2 else key)
    if want[0] == 'err':
        if res[0] == 'err' and res[1] == want[1]:
            return
        out.fail(key + '/' + ('no-error' if res[0] == 'ok' else ':'.join(res[:2])),
                 '%s -> %r expected error %s (text=%r tags=%s)' % (expr, res[:2], want[1], rec.text, rec.tags))
        return
    if res[0] != 'ok':
        out.fail(key + '/' + ':'.join(res[:2]) + ('@' + res[2] if res[0] == 'exc' else ''),
                 '%s -> %r expected %r (text=%r tags=%s)' % (expr, res, want[1], rec.text, rec.tags))
        return
    got = res[1]
    if isinstance(got, list) and len(got) == 1:
        got = got[0]
    ok = check(got) if check is not None else (got is want[1] if isinstance(want[1], bool) else got == want[1])
    if not ok:
        out.fail(key + '/value', '%s -> %r (%s) expected %r (text=%r tags=%s)' % (
            expr, got, glabel(got), want[1], rec.text, rec.tags))


def arithmetic(out, eng, T, rec, exp):
    """operations on one typed atomic node whose typed value was found correct"""
    (d, b), p = exp[0], rec.path
    fam = G.family(b)
    key = 'C20/arith/%s' % fam
    ctor = 'xs:' + (G.PARENT[b] if b in G.ONLY_11 else b)
    if fam == 'integer':
        expect(out, eng, '%s eq %d' % (p, d), ('ok', True), key + '/eq', rec)
        expect(out, eng, '%s = %d' % (p, d), ('ok', True), key + '/general-eq', rec)
        expect(out, eng, '%s + 1' % p, ('ok', d + 1), key + '/plus', rec,
               lambda g: isinstance(g, int) and not isinstance(g, bool) and g == d + 1)
        expect(out, eng, '%s lt %d' % (p, d + 1), ('ok', True), key + '/lt', rec)
        expect(out, eng, "%s = 'x'" % p, ('err', 'XPTY0004'), 'C20/compare/number-vs-string', rec)
    elif fam == 'decimal':
        lit = format(Decimal(d), 'f')
        if '.' not in lit:
            lit += '.0'
        expect(out, eng, '%s eq %s' % (p, lit), ('ok', True), key + '/eq', rec)
        expect(out, eng, '%s + 1' % p, ('ok', Decimal(d) + 1), key + '/plus', rec,
               lambda g: isinstance(g, (int, Decimal)) and not isinstance(g, bool) and g == Decimal(d) + 1)
        expect(out, eng, "%s = 'x'" % p, ('err', 'XPTY0004'), 'C20/compare/number-vs-string', rec)
    elif fam == 'double':
        if d != d:
            expect(out, eng, '%s eq %s' % (p, p), ('ok', False), key + '/nan-eq', rec)
        elif d in (float('inf'), float('-inf')):
            expect(out, eng, "%s eq xs:double('%s')" % (p, 'INF' if d > 0 else '-INF'), ('ok', True), key + '/eq', rec)
        else:
            expect(out, eng, '%s eq %s' % (p, xdouble_literal(d)), ('ok', True), key + '/eq', rec)
            expect(out, eng, '%s + 1' % p, ('ok', d + 1.0), key + '/plus', rec,
                   lambda g: isinstance(g, float) and g == d + 1.0)
    elif fam == 'float' and d != d:
        expect(out, eng, '%s eq %s' % (p, p), ('ok', False), key + '/nan-eq', rec)
    elif fam == 'float':
        expect(out, eng, "%s eq xs:float('%s')" % (p, rec.text.strip()), ('ok', True), key + '/eq', rec)
    elif fam == 'boolean':
        expect(out, eng, '%s eq %s' % (p, 'true()' if d else 'false()'), ('ok', True), key + '/eq', rec)
        expect(out, eng, '%s = %s' % (p, 'false()' if d else 'true()'), ('ok', False), key + '/general-eq', rec)
    elif fam == 'string':
        expect(out, eng, '%s eq %s' % (p, lit_string(str(d))), ('ok', True), key + '/eq', rec)
        expect(out, eng, '%s = 0' % p, ('err', 'XPTY0004'), 'C20/compare/string-vs-number', rec)
    elif fam == 'anyURI':
        expect(out, eng, '%s = %s' % (p, lit_string(str(d))), ('ok', True), key + '/general-eq', rec)
    else:
        expect(out, eng, "%s eq %s('%s')" % (p, ctor, rec.text.strip()), ('ok', True), key + '/eq', rec)


def sums(out, eng, T, recs, good):
    """sum() over sibling elements of one name whose typed values are all correct integers/decimals"""
    groups = collections.OrderedDict()
    for i, rec in enumerate(recs):
        if rec.kind == 'element' and '/' in rec.path[1:]:
            parent = rec.path.rsplit('/', 1)[0]
            # a sibling whose typed value is wrong (or nilled) would only repeat that finding
            groups.setdefault((parent, rec.name), []).append(good.get(i))
    pre = 't:' if eng.spec['ns'] else ''
    for (parent, name), vals in groups.items():
        if len(vals) < 2 or None in vals:
            continue
        fams = {G.family(b) for _, b in vals}
        if not fams <= {'integer', 'decimal'}:
            continue
        total = sum(Decimal(v) for v, _ in vals)
        expr = 'sum(%s/%s%s)' % (parent, pre, name)
        res = eng.select(expr)
        out.dim('arith', 'sum')
        if res[0] != 'ok':
            out.fail('C20/arith/sum/' + ':'.join(res[:2]), '%s -> %r' % (expr, res))
            continue
        got = res[1][0] if isinstance(res[1], list) and len(res[1]) == 1 else res[1]
        if isinstance(got, float):
            out.fail('C20/arith/sum/result-type', '%s -> %r (%s): sum of %s values must not be a double/float' % (
                expr, got, glabel(got), '/'.join(sorted(fams))))
        elif isinstance(got, bool) or not isinstance(got, (int, Decimal)) or Decimal(got) != total:
            out.fail('C20/arith/sum/value', '%s -> %r expected %s' % (expr, got, total))
        elif fams == {'integer'} and not isinstance(got, int):
            out.fail('C20/arith/sum/result-type-integer', '%s -> %r (%s): sum of integer values' % (expr, got, glabel(got)))


# ------------------------------------------------------------------ selection invariance
def signatures(nodes, index):
    """node list -> comparable list; attribute runs of one element are order-normalised"""
    sig = []
    for n in nodes:
        if isinstance(n, ElementNode):
            sig.append(('e', index.get(id(n.value), -1)))
        elif isinstance(n, AttributeNode):
            sig.append(('a', index.get(id(n.parent.value), -1) if n.parent is not None else -1, n.name, n.value))
        elif isinstance(n, TextNode):
            par = n.parent
            k = -1
            if par is not None:
                for j, c in enumerate(par.children):
                    if c is n:
                        k = j
            sig.append(('t', index.get(id(par.value), -1) if isinstance(par, ElementNode) else -1, k, n.value))
        elif isinstance(n, DocumentNode):
            sig.append(('d',))
        else:
            sig.append(('o', type(n).__name__, repr(n)[:40]))
    out, i = [], 0
    while i < len(sig):
        if sig[i][0] == 'a':
            j = i
            while j < len(sig) and sig[j][0] == 'a' and sig[j][1] == sig[i][1]:
                j += 1
            out.extend(sorted(sig[i:j]))
            i = j
        else:
            out.append(sig[i])
            i += 1
    return out


def shape(expr):
    import re
    s = re.sub(r'\bt:', '', expr)
    s = re.sub(r'\b(ancestor-or-self|ancestor|following-sibling|preceding-sibling|following|preceding|'
               r'descendant-or-self|descendant|parent|child|self|attribute)::', r'\1::', s)
    s = re.sub(r'(?<![\w:-])(root|[abcvwxyz]|p|q|id2|n)(?![\w(:-])', 'N', s)
    s = re.sub(r'\d+', 'k', s)
    return s


def selection(out, eng, case, recs, elems):
    root = eng.root
    aug = copy.deepcopy(root)
    aug_elems = list(aug.iter())
    ndefaulted = 0
    dflt = set()
    for rec in recs:
        if rec.kind == 'attribute' and rec.defaulted:
            aug_elems[rec.eidx].set(rec.name, rec.text)
            dflt.add((rec.eidx, rec.name))
            ndefaulted += 1
    out.dim('selection_instances', 'with-defaulted-attributes' if ndefaulted else 'no-defaulted-attributes')
    if eng.kind == 'tree':
        aug_root = aug.getroottree() if isinstance(aug, LE._Element) else ET.ElementTree(aug)
    else:
        aug_root = aug
    idx = {id(e): i for i, e in enumerate(elems)}
    aidx = {id(e): i for i, e in enumerate(aug_elems)}
    for expr in case.get('paths', []):
        a = eng.nodes(expr, schema=True)
        b = eng.nodes(expr, schema=False, root=aug_root)
        out.dim('selection_paths', shape(expr))
        sh = shape(expr)
        if a[0] != 'ok' or b[0] != 'ok':
            if a[:2] != b[:2]:
                out.fail('C20/selection/outcome/%s' % sh, '%s: with schema %r, without %r' % (expr, a[:3], b[:3]))
            continue
        if not isinstance(a[1], list) or not isinstance(b[1], list):
            if a[1] != b[1]:
                out.fail('C20/selection/value/%s' % sh, '%s: with schema %r, without %r' % (expr, a[1], b[1]))
            continue
        sa, sb = signatures(a[1], idx), signatures(b[1], aidx)
        out.dim('selection_compared', 'nonempty' if sb else 'empty')
        if sa == sb:
            continue
        if sorted(map(repr, sa)) == sorted(map(repr, sb)):
            diff = 'order'
        elif len(set(map(repr, sa))) != len(sa) and set(map(repr, sa)) == set(map(repr, sb)):
            diff = 'duplicates'
        elif set(map(repr, sa)) < set(map(repr, sb)):
            diff = 'missing'
        elif set(map(repr, sa)) > set(map(repr, sb)):
            diff = 'extra'
        else:
            diff = 'different'
        kinds = {x[0] for x in set(sa) ^ set(sb)} or {'n'}
        import re
        if re.match(r'\(?//?(\*|element\(\))', expr) or '| //*' in expr:
            lead = 'wildcard-step-from-document'
        else:
            lead = 'other/' + '+'.join(sorted(kinds)) + ('/defaulted-attrs' if any(
                x[0] == 'a' and (x[1], x[2]) in dflt for x in set(sa) ^ set(sb)) else '')
        out.fail('C20/selection/%s/%s' % (diff, lead),
                 '%s: with schema %r, schema-less (defaulted attributes materialised) %r' % (expr, sa[:12], sb[:12]))


# ------------------------------------------------------------------ context schema setter
def setter(out, eng, recs, exps):
    r = call(XPathContext, eng.sel_root, namespaces=eng.ns)
    if r[0] != 'ok':
        out.fail('C20/setter/context/' + ':'.join(r[:2]), repr(r))
        return
    ctx = r[1]

    def nodemap():
        m = {}
        rootnode = ctx.root
        for n in rootnode.iter_descendants():
            if isinstance(n, ElementNode):
                m[id(n.value)] = n
        return m

    def snapshot(m):
        snap = []
        for rec in recs:
            if rec.kind != 'element':
                continue
            n = m.get(id(rec.elem))
            if n is None:
                snap.append(None)
                continue
            tv = call(lambda: n.typed_value)
            attrs = call(lambda: [(a.name, a.value) for a in n.attributes])
            snap.append((tv, attrs))
        return snap

    m = nodemap()
    before = snapshot(m)
    for (tv, attrs), rec in zip([s for s in before if s], [x for x in recs if x.kind == 'element']):
        if tv[0] == 'ok' and not isinstance(tv[1], UntypedAtomic) and tv[1] not in ([], None):
            out.fail('C20/setter/untyped-before', '%s typed value %r without schema' % (rec.path, tv[1]))
            return
    s1 = call(setattr, ctx, 'schema', eng.proxy)
    if s1[0] != 'ok':
        out.fail('C20/setter/set/' + ':'.join(s1[:2]), repr(s1))
        return
    m = nodemap()
    k = 0
    for i, rec in enumerate(recs):
        if rec.kind != 'element' or i not in exps:
            continue
        n = m.get(id(rec.elem))
        if n is None:
            continue
        tv = call(lambda: n.typed_value)
        k += 1
        if tv[0] == 'ok' and isinstance(tv[1], UntypedAtomic):
            out.fail('C20/setter/not-applied', '%s still untyped after ctx.schema = proxy (tags=%s)' % (rec.path, rec.tags))
            break
        tn = call(lambda: n.type_name)
        if tn[0] == 'ok' and rec.xtype.name is not None and tn[1] != rec.xtype.name:
            out.fail('C20/setter/type-name', '%s type_name %r expected %r' % (rec.path, tn[1], rec.xtype.name))
            break
    out.dim('setter', 'applied', k)
    s2 = call(setattr, ctx, 'schema', None)
    if s2[0] != 'ok':
        out.fail('C20/setter/clear/' + ':'.join(s2[:2]), repr(s2))
        return
    after = snapshot(nodemap())
    if [repr(x) for x in after] != [repr(x) for x in before]:
        for x, y, rec in zip(before, after, [x for x in recs if x.kind == 'element']):
            if repr(x) != repr(y):
                what = 'attributes' if x and y and repr(x[1]) != repr(y[1]) else 'typed-value'
                out.fail('C20/setter/clear-incomplete/' + what,
                         '%s: before %r, after schema=None %r' % (rec.path, x, y))
                break
    out.dim('setter', 'cleared')


# ------------------------------------------------------------------ harness interface
def check_case(kind, case):
    out = Outcome()
    out.nontrivial = False
    spec = case['schema']
    xsd = G.render_schema(spec)
    schema = get_schema(spec['v'], xsd)
    if schema is None:
        out.dim('rejected', 'schema')
        out.obs = 'schema rejected by xmlschema'
        return out
    try:
        root = build_tree(spec, case['instance'], case.get('lib', 'et'), case.get('indent', False))
    except (ET.ParseError, LE.XMLSyntaxError, ValueError):
        out.dim('rejected', 'instance-not-well-formed')
        return out
    try:
        ok = schema.is_valid(root)
    except Exception:
        ok = False
    if not ok:
        out.dim('rejected', 'instance-invalid')
        out.obs = 'instance invalid'
        return out
    T = G.Types(spec)
    try:
        recs, elems = walk(spec, T, schema, root)
    except (KeyError, AttributeError, TypeError, IndexError):
        out.dim('rejected', 'oracle-walk')
        return out
    eng = Eng(case, spec, schema, root)
    out.dim('config', 'xsd%s/xpath%s/%s/%s%s' % (spec['v'], case['parser'], case.get('lib', 'et'), eng.kind,
                                               '/ns' if spec['ns'] else '/no-ns'))
    # typed nodes through the context (node.typed_value / node.type_name)
    r = call(XPathContext, eng.sel_root, namespaces=eng.ns, schema=eng.proxy)
    nodes = {}
    if r[0] != 'ok':
        out.fail('C20/context/' + ':'.join(r[:2]) + ('@' + r[2] if r[0] == 'exc' else ''), repr(r))
    else:
        for n in r[1].root.iter_descendants():
            if isinstance(n, ElementNode):
                nodes[id(n.value)] = n
    focus = case.get('focus')
    compared = 0
    exps, good, statuses = {}, {}, {}
    for i, rec in enumerate(recs):
        d = T.definition(rec.t)
        if d[0] == 'c' and d[1]['k'] == 'model':
            continue
        flags = []
        exp = [] if rec.nilled else expected_items(spec, T, schema, rec.t, rec.xtype, rec.text, flags)
        rec.union_derived_member = bool(flags)
        if exp is None:
            out.dim('undecided', 'decode')
            continue
        exps[i] = exp
        for tag in rec.tags:
            out.dim('typed_nodes', rec.kind + ':' + tag)
        for _, b in exp:
            out.dim('builtin', b)
        node = nodes.get(id(rec.elem))
        status = 'ok'
        if node is not None:
            if rec.kind == 'element':
                got = call(lambda: node.typed_value)
                tn = call(lambda: node.type_name)
            else:
                an = None
                al = call(lambda: list(node.attributes))
                if al[0] == 'ok':
                    for a in al[1]:
                        if a.name == rec.name:
                            an = a
                if an is None:
                    out.fail('C20/attributes/%s' % ('defaulted-missing' if rec.defaulted else 'missing'),
                             '%s not among node.attributes %r' % (rec.path, al))
                    statuses[i] = 'bad'
                    continue
                got = call(lambda: an.typed_value)
                tn = call(lambda: an.type_name)
                if rec.defaulted:
                    sv = call(lambda: an.value)
                    if sv != ('ok', rec.text):
                        out.fail('C20/attributes/defaulted-value', '%s value %r expected %r' % (rec.path, sv, rec.text))
            status = compare_typed(out, rec, exp, got, 'node.typed_value')
            compared += 1
            out.dim('oracle_comparisons', 'typed_value')
            if rec.xtype.name is not None:
                out.dim('oracle_comparisons', 'type_name')
                if tn != ('ok', rec.xtype.name):
                    out.fail('C20/type-name/%s' % ('xsi:type' if 'xsi:type' in rec.tags else rec.kind),
                             '%s type_name %r expected %r tags=%s' % (rec.path, tn, rec.xtype.name, rec.tags))
        statuses[i] = status
        if focus is not None and i not in focus:
            if status == 'ok' and len(exp) == 1 and not rec.nilled and T.variety(T.simple_of(rec.t)) == 'atomic':
                good[i] = exp[0]
            continue
        # the same through select(): data(path)
        res = eng.select('data(%s)' % rec.path)
        st2 = compare_typed(out, rec, exp, res, 'data()') if status != 'bad' else 'bad'
        out.dim('oracle_comparisons', 'data()')
        if st2 == 'bad':
            status = statuses[i] = 'bad'
        kind_tests(out, eng, T, rec, status)
        var = T.variety(T.simple_of(rec.t))
        if st2 == 'data-raises':
            out.dim('arith_masked', 'fn:data-raises-on-empty-typed-value')
        elif status == 'ok' and not rec.nilled:
            if len(exp) == 1 and var == 'atomic':
                good[i] = exp[0]
                arithmetic(out, eng, T, rec, exp)
            elif var == 'union':
                # expressions over a union-typed node may legitimately be rejected by static typing
                out.dim('undecided', 'arithmetic-on-union')
            if var == 'list':
                expect(out, eng, 'count(data(%s))' % rec.path, ('ok', len(exp)), 'C20/arith/list/count', rec)
        elif not rec.nilled:
            out.dim('arith_masked', status)
    sums(out, eng, T, recs, good)
    selection(out, eng, case, recs, elems)
    if case.get('setter'):
        setter(out, eng, recs, exps)
    out.nontrivial = compared > 0
    out.obs = '%d nodes, %d typed values compared, %d paths, keys=%s' % (
        len(recs), compared, len(case.get('paths', [])), sorted({k for k, _ in out.fails})[:4])
    return out


def shrink(kind, case):
    # fewer paths / focus nodes
    paths = case.get('paths', [])
    if paths:
        c = dict(case)
        c['paths'] = []
        yield c
    if len(paths) > 1:
        for i in range(len(paths)):
            c = dict(case)
            c['paths'] = [paths[i]]
            yield c
    if case.get('focus') is not None and len(case['focus']) > 1:
        for i in case['focus']:
            c = dict(case)
            c['focus'] = [i]
            yield c
    if case.get('setter'):
        c = dict(case)
        c['setter'] = False
        yield c

    # drop children / attributes of the root and of its children (bounded: every candidate costs a full case)
    tag, attrs, text, children = case['instance']
    cands = []
    for i in range(len(children)):
        cands.append([tag, attrs, text, children[:i] + children[i + 1:]])
    for i, ch in enumerate(children):
        for j in range(len(ch[3])):
            cands.append([tag, attrs, text, children[:i] + [[ch[0], ch[1], ch[2], ch[3][:j] + ch[3][j + 1:]]]
                          + children[i + 1:]])
    for i in range(len(attrs)):
        cands.append([tag, attrs[:i] + attrs[i + 1:], text, children])
    for inst in cands[:24]:
        c = dict(case)
        c['instance'] = inst
        c['focus'] = None
        yield c
    if case.get('indent'):
        c = dict(case)
        c['indent'] = False
        yield c


def run(h):
    r = h.rng
    nschemas = h.n(90)
    per_schema = 6
    made = 0
    for si in range(nschemas):
        v = '1.1' if r.random() < 0.4 else '1.0'
        spec = G.g_schema(r, v)
        valid = finish_schema(r, spec)
        if valid is None:
            h.count('generator', 'types-schema-rejected')
            continue
        schema = get_schema(v, G.render_schema(spec))
        if schema is None:
            h.count('generator', 'schema-rejected')
            continue
        h.count('generator', 'schema-accepted')
        got = 0
        for attempt in range(per_schema * 4):
            if got >= per_schema:
                break
            try:
                inst = G.g_instance(r, spec, valid)
            except G.GenFail:
                h.count('generator', 'instance-genfail')
                continue
            lib = 'lxml' if r.random() < 0.35 else 'et'
            if spec['ns'] and lib == 'et' and 'xsi:type' in json.dumps(inst):
                lib = 'lxml'     # ElementTree keeps no prefix map: a prefixed xsi:type cannot be resolved
            indent = r.random() < 0.3
            try:
                root = build_tree(spec, inst, lib, indent)
                ok = schema.is_valid(root)
            except Exception:
                ok = False
            if not ok:
                h.count('generator', 'instance-rejected')
                continue
            h.count('generator', 'instance-accepted')
            got += 1
            nnodes = sum(1 for _ in root.iter()) * 2
            focus = sorted(r.sample(range(nnodes + 4), min(6, nnodes + 4)))
            case = {'schema': spec, 'instance': inst, 'lib': lib, 'indent': indent,
                    'parser': '3.1' if r.random() < 0.5 else '2.0',
                    'root': 'tree' if r.random() < 0.3 else 'elem',
                    'focus': focus, 'paths': g_paths(r, spec, inst), 'setter': r.random() < 0.3}
            h.case('instance', case)
            made += 1


def floors(v):
    reasons = []
    if v.got('oracle_comparisons', 'typed_value') < 300:
        reasons.append('fewer than 300 typed values compared with the schema processor')
    if v.got('kind_test') < 300:
        reasons.append('fewer than 300 element()/attribute() type tests')
    if v.got('selection_compared') < 200:
        reasons.append('fewer than 200 path selections compared with/without schema')
    if v.got('arith') < 100:
        reasons.append('fewer than 100 arithmetic/comparison checks on typed nodes')
    for tag in ('element:restriction', 'element:builtin-atomic', 'element:simple-content', 'attribute:builtin-atomic'):
        if v.got('typed_nodes', tag) < 10:
            reasons.append('type category %s seen fewer than 10 times' % tag)
    if v.got('generator', 'schema-accepted') < 10:
        reasons.append('fewer than 10 schemas accepted')
    return reasons
