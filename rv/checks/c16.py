"""C16 - function items are first-class values: closures, partial application, named
references, higher-order functions and fn:sort, against the funclang reference evaluator
(function items = Python closures over an explicit lexical environment) and against
engine-only equivalences (f#n(args) = f(args), f(?, b)(a) = f(a, b), HOF = definitional
expansion, k calls = k equal results)."""
from ..core import Outcome
from ..engine import call, describe, evaluate, xselect
from ..models import funclang as fl
from ..models.funclang import Interp, ModelError, SortTypeError, render

PROPERTY = 'C16'
LEVEL = 'exploration'
RULE = ('programs over a typed function-item language (integers, strings, booleans, sequences, inline functions, '
        'named references, partial application, dynamic calls, for/let/if/!, the HOFs) produced by (a) closure '
        'templates: several function items created from ONE function expression under different for/let/parameter '
        'bindings and called later in random order and multiplicity, (b) a type-directed random generator, '
        '(c) equivalence pairs evaluated by the engine on both sides, (d) fn:sort inputs with indexed items. '
        'A program is non-trivial when the model evaluates it and at least one function item is called; '
        'an equivalence when its direct side evaluates; a sort case when it has >= 2 items. Distinct by canonical '
        'JSON of the AST. XPath 3.0 and 3.1 parsers, select() and token.evaluate() paths, context item 1.')
ASSUMPTIONS = [
    'the funclang evaluator (lexical environments, definitional HOF semantics of F&O 3.1 ch.16) is the ground truth',
    'only well-typed, error-free programs are generated: the model never predicts an error except XPTY0004 for '
    'sort keys of disjoint primitive classes',
    'sort: default/code-point collation only; numeric keys are dyadic rationals so promotion to double is exact',
    'engine-only equivalences are skipped (counted) when the direct call itself raises',
    'programs whose result contains a function item or an array are not decided (counted as undecided)',
    'engine outcomes are memoised per (text, version, api): evaluation builds a new parser and context each time',
]

CODEPOINT = 'http://www.w3.org/2005/xpath-functions/collation/codepoint'
HOFS = ('for-each', 'filter', 'fold-left', 'fold-right', 'for-each-pair', 'apply', 'sort')


# ============================================================================ engine side
def norm(d):
    if isinstance(d, list):
        if d and d[0] == 'function' and (len(d) == 1 or not isinstance(d[1], list)):
            return ['function']
        return [norm(x) for x in d]
    return d


_CACHE = {}


def eng(text, v, api):
    """engine outcome of one program text; memoised (evaluation of a text is a pure function of the
    text: each call builds a new parser and context), which only saves time in the reductions"""
    k = (text, v, api)
    r = _CACHE.get(k)
    if r is None:
        if len(_CACHE) > 60000:
            _CACHE.clear()
        r = _CACHE[k] = _eng(text, v, api)
    return r


def _eng(text, v, api):
    if api == 'evaluate':
        o = call(evaluate, text, v, item=1)
    else:
        o = call(xselect, text, v, None, item=1)
    if o[0] != 'ok':
        return tuple(o)
    val = o[1]
    if not isinstance(val, list):
        val = [val]
    return ('ok', norm(describe(val)))


def c16_key(feat, mk):
    """partial application stores the bound arguments on the syntax token and evaluates them lazily (listed
    defect): WHICH error code a program then ends with is accidental, so the code is not part of the key"""
    if feat.startswith('partial-') and mk.startswith('err:'):
        mk = 'err'
    elif feat.startswith('partial-') and mk.startswith('value'):
        mk = 'value'
    return 'C16/%s/%s' % (feat, mk)


def mismatch_kind(o, exp=None):
    if o[0] == 'ok':
        got = o[1]
        if exp is None or not isinstance(exp, list):
            return 'value'
        if any(x is None for x in got):
            return 'value:none-item'
        if len(got) != len(exp):
            return 'value:count'
        if sorted(map(repr, got)) == sorted(map(repr, exp)):
            return 'value:order'
        return 'value:items'
    if o[0] == 'err':
        return 'err:' + o[1]
    return 'exc:%s@%s' % (o[1], o[2])


def model_run(ast, v):
    """-> (described value, Interp) or None when the model does not decide"""
    ip = Interp(v)
    try:
        val = ip.run(ast)
        return fl.describe(val), ip
    except ModelError:
        return None
    except RecursionError:
        return None


# ============================================================================ classification
# partial application is attributed first: it is the mechanism with listed defects (argument tokens stored on the
# item and evaluated lazily), and a failing program that uses it anywhere is most likely failing because of it
PRIORITY = ['partial-chained', 'partial-dynamic', 'partial-static', 'closure-multi', 'recursion'] + \
    ['fn:' + h for h in HOFS] + ['rebind', 'named-ref', 'array-call', 'simple-map', 'typed-param', 'dynamic-call', 'inline']


def feature_of(features, mk=None):
    # fold-left/right mishandle a zero value that is not a singleton: an error for 2+ items, a None item
    # (or an error) for the empty sequence; those symptoms are attributed to that mechanism first
    if mk is not None and not any(f in features for f in ('partial-chained', 'partial-dynamic', 'partial-static')):
        if 'fold-zero-multi' in features and mk.startswith('err:'):
            return 'fold-zero-multi'
        if 'fold-zero-empty' in features and (mk.startswith('err:') or mk in ('value:none-item', 'value:count')):
            return 'fold-zero-empty'
    for f in PRIORITY:
        if f in features:
            return f
    return 'plain'


def has_fitem(d):
    return any(x and x[0] in ('function', 'array') for x in d)


def for_var_in_range(ast):
    """a for-clause whose range expression mentions (refers to or re-binds) the name of its own variable"""
    for _, n in fl.subterms(ast):
        if n[0] in ('for', 'forc') and mentions(n[2], n[1]):
            return True
    return False


def mentions(ast, name):
    for _, n in fl.subterms(ast):
        if n[0] == 'var' and n[1] == name:
            return True
        if n[0] in ('for', 'forc', 'let', 'letc') and n[1] == name:
            return True
        if n[0] == 'fn' and any(p[0] == name for p in n[1]):
            return True
    return False


def failing(ast, v, api, want=None):
    """-> None | (mismatch kind, features, expected, got)"""
    m = model_run(ast, v)
    if m is None:
        return None
    exp, ip = m
    if has_fitem(exp):
        return None
    o = eng(render(ast), v, api)
    if o[0] == 'ok' and o[1] == exp:
        return None
    mk = mismatch_kind(o, exp)
    if want is not None and mk != want:
        return None
    return mk, ip.features, exp, o


def literal_of(d):
    """described value -> literal AST, or None"""
    items = []
    for x in d:
        if x[0] == 'integer':
            items.append(['int', int(x[1])])
        elif x[0] == 'string':
            items.append(['str', x[1]])
        elif x[0] == 'boolean':
            items.append(['bool', x[1] == 'true'])
        else:
            return None
    return items[0] if len(items) == 1 else ['seq'] + items


def _chain(*its):
    for it in its:
        yield from it


def local_candidates(ast):
    for path, node in fl.subterms(ast):
        for p, c in fl.children(node):
            yield fl.replace_at(ast, path, c)
        if node[0] == 'seq' and len(node) > 2:
            for i in range(1, len(node)):
                yield fl.replace_at(ast, path, node[:i] + node[i + 1:])
        if node[0] == 'int' and node[1] not in (0, 1):
            yield fl.replace_at(ast, path, ['int', 1])
        if node[0] == 'scall' and all(a is not None for a in node[2]):
            # a HOF call -> one direct dynamic call of its function argument
            a = node[2]
            alt = None
            if node[1] in ('for-each', 'filter') and len(a) == 2:
                alt = ['call', a[1], [a[0]]]
            elif node[1] == 'fold-left' and len(a) == 3:
                alt = ['call', a[2], [a[1], a[0]]]
            elif node[1] == 'fold-right' and len(a) == 3:
                alt = ['call', a[2], [a[0], a[1]]]
            elif node[1] == 'for-each-pair' and len(a) == 3:
                alt = ['call', a[2], [a[0], a[1]]]
            elif node[1] == 'apply' and a[1][0] == 'arr':
                alt = ['call', a[0], list(a[1][1])]
            elif node[1] == 'sort' and len(a) == 3:
                alt = ['call', a[2], [a[0]]]
            if alt is not None:
                yield fl.replace_at(ast, path, alt)
        if node[0] == 'fn' and any(ty is not None for _, ty in node[1]) or (node[0] == 'fn' and len(node) > 3 and node[3]):
            yield fl.replace_at(ast, path, ['fn', [[n_, None] for n_, _ in node[1]], node[2], None])


def fold_candidates(ast, v):
    """replace a closed, function-free subterm by the literal of its model value"""
    for path, node in fl.subterms(ast):
        if not path or node[0] in ('int', 'str', 'bool', 'var', 'ctx') or fl.size(node) < 3:
            continue
        if node[0] == 'seq' and all(x[0] in ('int', 'str', 'bool') for x in node[1:]):
            continue
        m = model_run(node, v)
        if m is None or has_fitem(m[0]):
            continue
        lit = literal_of(m[0])
        if lit is not None and fl.size(lit) < fl.size(node):
            yield fl.replace_at(ast, path, lit)


def minimise(ast, v, api, first, budget=70):
    """deterministic greedy reduction of a failing program (same kind of mismatch); returns (ast, failure)"""
    best, res = ast, first
    want = first[0]
    used = 0
    # 1. smallest failing closed subterm
    subs = sorted(((fl.size(s), i, s) for i, (p, s) in enumerate(fl.subterms(ast)) if p), key=lambda x: x[:2])
    cur = fl.size(ast)
    for sz, _, s in subs:
        if sz >= cur or used >= budget // 2:
            break
        if model_run(s, v) is None:
            continue
        used += 1
        r = failing(s, v, api, want)
        if r is not None:
            best, res = s, r
            break
    # 2. local reductions
    improved = True
    while improved and used < budget:
        improved = False
        for cand in _chain(local_candidates(best), fold_candidates(best, v)):
            if used >= budget:
                break
            if model_run(cand, v) is None:
                continue
            used += 1
            r = failing(cand, v, api, want)
            if r is not None:
                best, res, improved = cand, r, True
                break
    return best, res


# ============================================================================ typed generator
I, S, B, IS, SS = 'I', 'S', 'B', 'I*', 'S*'


def F(args, ret):
    return ('F', tuple(args), ret)


def elem(t):
    return t[0] if t in (IS, SS) else t


def star(t):
    return t + '*' if t in (I, S) else t


STRS = ['a', 'b', 'ab', '', 'x', 'B', 'zz', 'q1', "o'k", 'hello']
VARNAMES = ['x', 'y', 'z', 'i', 'j', 'f', 'g', 'a', 'b', 'n']
TYPENAME = {I: 'xs:integer', S: 'xs:string', B: 'xs:boolean', IS: 'xs:integer*', SS: 'xs:string*'}


def _builtin_sigs():
    sigs = [
        ('abs', (I,), I), ('string-length', (S,), I), ('upper-case', (S,), S),
        ('string', (I,), S), ('string', (S,), S),
        ('concat', (S, S), S), ('concat', (S, I), S), ('concat', (I, S), S), ('concat', (S, S, S), S),
        ('concat', (S, I, S), S), ('concat', (I, I), S), ('concat', (S, S, S, S), S),
        ('substring', (S, I), S), ('substring', (S, I, I), S),
        ('string-join', (SS, S), S), ('string-join', (SS,), S),
        ('count', (IS,), I), ('count', (SS,), I), ('sum', (IS,), I),
        ('reverse', (IS,), IS), ('reverse', (SS,), SS), ('head', (IS,), IS), ('tail', (IS,), IS),
        ('tail', (SS,), SS), ('empty', (IS,), B), ('exists', (SS,), B), ('exists', (IS,), B), ('not', (B,), B),
        ('starts-with', (S, S), B), ('contains', (S, S), B),
        ('subsequence', (IS, I), IS), ('subsequence', (IS, I, I), IS), ('subsequence', (SS, I, I), SS),
        ('remove', (IS, I), IS), ('remove', (SS, I), SS), ('index-of', (IS, I), IS),
    ]
    hof = []
    for X in (I, S):
        for Y in (I, S):
            hof.append(('for-each', (star(X), F((X,), Y)), star(Y)))
            hof.append(('for-each', (star(X), F((X,), star(Y))), star(Y)))
            for W in (I, S):
                hof.append(('for-each-pair', (star(X), star(Y), F((X, Y), W)), star(W)))
        hof.append(('filter', (star(X), F((X,), B)), star(X)))
        for Z in (I, S, IS, SS):
            hof.append(('fold-left', (star(X), Z, F((Z, X), Z)), Z))
            hof.append(('fold-right', (star(X), Z, F((X, Z), Z)), Z))
        hof.append(('sort', (star(X),), star(X)))
        for K in (I, S, IS):
            hof.append(('sort', (star(X), 'E', F((X,), K)), star(X)))
    return sigs, hof


PLAIN_SIGS, HOF_SIGS = _builtin_sigs()


class Gen:
    def __init__(self, r, v):
        self.r = r
        self.v = v
        self.sigs = [s for s in PLAIN_SIGS]
        self.hofs = [s for s in HOF_SIGS if not (s[0] == 'sort' and v < '3.1')]

    # ---- helpers
    def vars(self, env, t):
        seen = set()
        out = []
        for name, ty in reversed(env):
            if name in seen:
                continue
            seen.add(name)
            if ty == t:
                out.append(name)
        return out

    def name(self, avoid=()):
        r = self.r
        for _ in range(10):
            n = r.choice(VARNAMES)
            if n not in avoid:
                return n
        return 'v%d' % r.randint(0, 99)

    def forname(self, src, pool=VARNAMES):
        """name of a for variable: (almost) never one that the range expression mentions"""
        for _ in range(10):
            n = self.r.choice(pool)
            if not mentions(src, n) or self.r.random() < 0.03:
                return n
        return 'q'

    def randtype(self, fn_ok=True):
        x = self.r.random()
        if x < 0.40:
            return I
        if x < 0.60:
            return S
        if x < 0.75:
            return IS
        if x < 0.82:
            return SS
        if x < 0.88 or not fn_ok:
            return B
        return F((self.r.choice((I, S)),), self.r.choice((I, S, IS)))

    def lit(self, t):
        r = self.r
        if t == I:
            return ['int', r.randint(-3, 9)]
        if t == S:
            return ['str', r.choice(STRS)]
        if t == B:
            return ['bool', r.random() < 0.5]
        if t == IS:
            if r.random() < 0.25:
                a = r.randint(0, 3)
                return ['range', ['int', a], ['int', a + r.randint(0, 3)]]
            return ['seq'] + [['int', r.randint(-3, 9)] for _ in range(r.randint(0, 4))]
        if t == SS:
            return ['seq'] + [['str', r.choice(STRS)] for _ in range(r.randint(0, 3))]
        if t == 'E':
            return ['seq']
        raise ValueError(t)

    def leaf(self, t, env):
        if isinstance(t, tuple):
            return self.fexpr(t, env, 0) if t[0] == 'F' else self.fseq(t[1], env, 0)
        vs = self.vars(env, t)
        if vs and self.r.random() < 0.65:
            return ['var', self.r.choice(vs)]
        if t in (IS, SS) and self.r.random() < 0.3:
            vs = self.vars(env, elem(t))
            if vs:
                return ['seq', ['var', self.r.choice(vs)], self.lit(elem(t))]
        return self.lit(t)

    # ---- expressions of a data type
    def expr(self, t, env, d):
        r = self.r
        if isinstance(t, tuple):
            return self.fexpr(t, env, d) if t[0] == 'F' else self.fseq(t[1], env, d)
        if t == 'E':
            return ['seq']
        if d <= 0 or r.random() < 0.12:
            return self.leaf(t, env)
        prods = ['call', 'call', 'letcall', 'builtin', 'hof', 'hof', 'op', 'if', 'let']
        if t in (IS, SS):
            prods += ['for', 'seqlit', 'fsequse', 'fsequse', 'map']
        if self.v >= '3.1':
            prods.append('apply')
        p = r.choice(prods)
        d1 = d - 1
        if p == 'call':
            ft = F([self.randtype() for _ in range(r.choice((0, 1, 1, 2, 2, 3)))], t)
            return ['call', self.fexpr(ft, env, d1), [self.expr(a, env, d1) for a in ft[1]]]
        if p == 'letcall':
            ft = F([self.randtype(False) for _ in range(r.randint(0, 2))], t if r.random() < 0.7 else elem(t))
            fn = r.choice(['f', 'g', 'h'])
            env2 = env + ((fn, ft),)
            calls = [['call', ['var', fn], [self.expr(a, env2, d1 - 1) for a in ft[1]]]
                     for _ in range(r.randint(1, 3))]
            if r.random() < 0.3 and len(calls) > 1:
                calls.append(calls[0])
            return [r.choice(['let', 'letc']), fn, self.fexpr(ft, env, d1), self.combine(t, calls)]
        if p == 'builtin':
            cands = [s for s in self.sigs if s[2] == t]
            if not cands:
                return self.leaf(t, env)
            name, args, _ = r.choice(cands)
            return ['scall', name, [self.expr(a, env, d1) for a in args]]
        if p == 'hof':
            cands = [s for s in self.hofs if s[2] == t]
            if not cands:
                return self.leaf(t, env)
            name, args, _ = r.choice(cands)
            return ['scall', name, [self.expr(a, env, d1) for a in args]]
        if p == 'apply':
            ft = F([self.randtype(False) for _ in range(r.randint(0, 3))], t)
            return ['scall', 'apply', [self.fexpr(ft, env, d1), ['arr', [self.expr(a, env, d1 - 1) for a in ft[1]]]]]
        if p == 'op':
            if t == I:
                if r.random() < 0.2:
                    return ['scall', r.choice(['count', 'sum']), [self.expr(IS, env, d1)]]
                return ['op', r.choice('+-*'), self.expr(I, env, d1), self.expr(I, env, d1)]
            if t == S:
                return ['op', '||', self.expr(S, env, d1), self.expr(r.choice((S, I)), env, d1)]
            if t == B:
                x = r.random()
                if x < 0.5:
                    return ['cmp', r.choice(['eq', 'lt', 'le', 'gt', 'ge', 'ne']), self.expr(I, env, d1),
                            self.expr(I, env, d1)]
                if x < 0.7:
                    return ['gcmp', r.choice(['=', '<', '>']), self.expr(IS, env, d1), self.expr(IS, env, d1)]
                if x < 0.85:
                    return [r.choice(['and', 'or']), self.expr(B, env, d1), self.expr(B, env, d1)]
                return ['cmp', r.choice(['eq', 'lt']), self.expr(S, env, d1), self.expr(S, env, d1)]
            return ['seq', self.expr(t, env, d1), self.expr(elem(t), env, d1)]
        if p == 'if':
            return ['if', self.expr(B, env, d1), self.expr(t, env, d1), self.expr(t, env, d1)]
        if p == 'let':
            vt = self.randtype()
            n = self.name()
            return [r.choice(['let', 'letc']), n, self.expr(vt, env, d1), self.expr(t, env + ((n, vt),), d1)]
        if p == 'for':
            st = r.choice((IS, SS))
            src = self.expr(st, env, d1)
            n = self.forname(src)
            return [r.choice(['for', 'forc']), n, src,
                    self.expr(r.choice((t, elem(t))), env + ((n, elem(st)),), d1)]
        if p == 'seqlit':
            return ['seq'] + [self.expr(r.choice((t, elem(t))), env, d1) for _ in range(r.randint(1, 3))]
        if p == 'map':
            st = r.choice((IS, SS))
            n = self.name()
            return ['map', self.expr(st, env, d1),
                    ['let', n, ['ctx'], self.expr(r.choice((t, elem(t))), env + ((n, elem(st)),), d1)]]
        if p == 'fsequse':
            return self.fsequse(t, env, d1)
        return self.leaf(t, env)

    def combine(self, t, calls):
        """combine several expressions each of type t or elem(t) into one of type t"""
        if len(calls) == 1:
            return calls[0]
        if t in (IS, SS):
            return ['seq'] + calls
        out = calls[0]
        for c in calls[1:]:
            if t == I:
                out = ['op', '+', out, c]
            elif t == S:
                out = ['scall', 'concat', [out, c]]
            else:
                out = ['and', out, c]
        return out

    # ---- sequences of function items: created from ONE function expression
    def fseq(self, ft, env, d):
        r = self.r
        d1 = max(d - 1, 0)
        p = r.choice(['for', 'for', 'for-each', 'map', 'seq', 'curried', 'let'])
        st = r.choice((IS, IS, SS))
        src = self.lit(st) if r.random() < 0.7 else self.expr(st, env, d1)
        n = self.forname(src, ['i', 'j', 'k', 'x'])
        env2 = env + ((n, elem(st)),)
        if p == 'for':
            body = self.fexpr(ft, env2, d1, use=n)
            if r.random() < 0.25:
                m = self.name((n,))
                body = ['let', m, self.expr(I, env2, 1), self.fexpr(ft, env2 + ((m, I),), d1, use=m)]
            return [r.choice(['for', 'forc']), n, src, body]
        if p == 'for-each':
            return ['scall', 'for-each', [src, ['fn', [[n, None]], self.fexpr(ft, env2, d1, use=n), None]]]
        if p == 'map':
            return ['map', src, ['let', n, ['ctx'], self.fexpr(ft, env2, d1, use=n)]]
        if p == 'curried':
            # let $mk := function($n){ <function expr using $n> } return ($mk(a), $mk(b), ...)
            mk = r.choice(['mk', 'm'])
            inner = self.fexpr(ft, env2, d1, use=n)
            k = r.randint(2, 3)
            return ['let', mk, ['fn', [[n, None]], inner, None],
                    ['seq'] + [['call', ['var', mk], [self.lit(elem(st))]] for _ in range(k)]]
        if p == 'let':
            m = self.name()
            vt = self.randtype(False)
            return ['let', m, self.expr(vt, env, d1), self.fseq(ft, env + ((m, vt),), d1)]
        return ['seq'] + [self.fexpr(ft, env, d1) for _ in range(r.randint(1, 3))]

    def fsequse(self, t, env, d):
        r = self.r
        params = [self.randtype(False) for _ in range(r.randint(0, 2))]
        ft = F(params, r.choice((t, elem(t))))
        fs = self.fseq(ft, env, d)
        p = r.choice(['for', 'map', 'for-each', 'letidx', 'letidx', 'pipeline'])
        if p == 'pipeline':
            ft = F((t,), t)
            fs = self.fseq(ft, env, d)
            return self._pipeline(fs, t, env)
        args = [self.expr(a, env, 1) for a in params]
        if p == 'for':
            return ['for', 'fq', fs, ['call', ['var', 'fq'], args]]
        if p == 'map':
            return ['map', fs, ['call', ['ctx'], args]]
        if p == 'for-each':
            return ['scall', 'for-each', [fs, ['fn', [['fq', None]], ['call', ['var', 'fq'], args], None]]]
        # let $fs := ... return (for $k in (3,1,2,1) return $fs[$k](args))   -- out of range -> empty -> skipped
        ks = [r.randint(1, 4) for _ in range(r.randint(2, 5))]
        if r.random() < 0.5:
            body = ['for', 'kq', ['seq'] + [['int', k] for k in ks],
                    ['for', 'hq', ['idx', ['var', 'fs'], ['var', 'kq']], ['call', ['var', 'hq'], args]]]
        else:
            body = ['seq'] + [['for', 'hq', ['idx', ['var', 'fs'], ['int', k]], ['call', ['var', 'hq'], args]]
                              for k in ks]
        return ['let', 'fs', fs, body]

    def _pipeline(self, fs, t, env):
        which = self.r.choice(['fold-left', 'fold-right'])
        if which == 'fold-left':
            cb = ['fn', [['acc', None], ['fn', None]], ['call', ['var', 'fn'], [['var', 'acc']]], None]
        else:
            cb = ['fn', [['fn', None], ['acc', None]], ['call', ['var', 'fn'], [['var', 'acc']]], None]
        return ['scall', which, [fs, self.expr(t, env, 1), cb]]

    # ---- expressions of a function type
    def fexpr(self, ft, env, d, use=None, simple=False):
        r = self.r
        _, params, ret = ft
        d1 = d - 1
        prods = ['inline', 'inline', 'inline']
        if simple:
            if self.vars(env, ft) and use is None:
                prods += ['var', 'var']
            if use is None and any(s[1] == params and s[2] == ret for s in self.sigs + self.hofs):
                prods += ['ref', 'ref']
        elif use is None:
            if self.vars(env, ft):
                prods += ['var', 'var']
            if any(s[1] == params and s[2] == ret for s in self.sigs + self.hofs):
                prods += ['ref', 'ref']
            if d > 0:
                prods += ['pdyn', 'pdyn', 'pstatic', 'pstatic', 'if', 'let', 'callret', 'paren']
        elif d > 0:
            prods += ['pdyn', 'callret']
        p = r.choice(prods)
        if p == 'var':
            return ['var', r.choice(self.vars(env, ft))]
        if p == 'ref':
            name, args, _ = r.choice([s for s in self.sigs + self.hofs if s[1] == params and s[2] == ret])
            return ['ref', name, len(args)]
        if p == 'paren':
            return ['paren', self.fexpr(ft, env, d1)]
        if p == 'if':
            return ['if', self.expr(B, env, d1), self.fexpr(ft, env, d1), self.fexpr(ft, env, d1)]
        if p == 'let':
            n = self.name()
            vt = self.randtype()
            return ['let', n, self.expr(vt, env, d1), self.fexpr(ft, env + ((n, vt),), d1, use=n if vt in (I, S) else None)]
        if p == 'callret':
            xt = self.randtype(False)
            n = self.name()
            outer = ['fn', [[n, None]], self.fexpr(ft, env + ((n, xt),), d1, use=n if xt in (I, S) else use), None]
            if use is None and r.random() < 0.5:
                outer = self.fexpr(F((xt,), ft), env, d1)
            return ['call', outer, [self.expr(xt, env, d1)]]
        if p == 'pstatic':
            cands = [s for s in self.sigs + self.hofs if s[2] == ret and len(s[1]) >= len(params)
                     and self.embed(params, s[1]) is not None]
            if cands:
                name, args, _ = r.choice(cands)
                pos = self.embed(params, args)
                return ['scall', name, [None if i in pos else self.expr(a, env, d1) for i, a in enumerate(args)]]
            p = 'pdyn'
        if p == 'pdyn':
            extra = r.choice((0, 1, 1, 1, 2))
            gargs = list(params)
            holes = list(range(len(params)))
            for _ in range(extra):
                at = r.randint(0, len(gargs))
                gargs.insert(at, self.randtype(False))
                holes = [h + 1 if h >= at else h for h in holes]
            if not params and not extra:
                return self.fexpr(ft, env, d1, use)
            if not params:
                # a partial application needs a placeholder: F() cannot be produced this way
                return self.fexpr(ft, env, d1, use)
            g = self.fexpr(F(gargs, ret), env, d1, use, simple=r.random() < 0.75)
            return ['pcall', g, [None if i in holes else self.expr(a, env, d1) for i, a in enumerate(gargs)]]
        # inline
        names = []
        for _ in params:
            names.append(self.name(avoid=tuple(names) + ((use,) if use else ())))
        env2 = env + tuple(zip(names, params))
        typed = r.random() < 0.2
        body = self.expr(ret, env2, max(d1, 1) if use else d1)
        if use is not None and not self.uses(body, use):
            body = self.mix(ret, body, use, env2)
        plist = [[n, TYPENAME.get(t) if typed and not isinstance(t, tuple) else None] for n, t in zip(names, params)]
        return ['fn', plist, body, TYPENAME.get(ret) if typed and not isinstance(ret, tuple) and r.random() < 0.5 else None]

    def uses(self, e, name):
        return any(s[0] == 'var' and s[1] == name for _, s in fl.subterms(e))

    def mix(self, ret, body, use, env):
        """force the captured variable into the result (variable is an I or S singleton)"""
        ut = dict((n, t) for n, t in env).get(use)
        v = ['var', use]
        if isinstance(ret, tuple):
            return body
        if ret == I and ut == I:
            return ['op', self.r.choice('+-*'), body, v]
        if ret == I:
            return ['op', '+', body, ['scall', 'string-length', [v]]]
        if ret == S:
            return ['scall', 'concat', [body, v]]
        if ret == B:
            return ['and', body, ['cmp', 'eq', v, v]]
        if ret == IS and ut == I:
            return ['seq', body, v]
        if ret == IS:
            return ['seq', body, ['scall', 'string-length', [v]]]
        if ret == SS:
            return ['seq', body, ['scall', 'string', [v]]]
        return body

    @staticmethod
    def embed(small, big):
        """positions of an order-preserving embedding of `small` into `big` (leftmost), or None"""
        pos = []
        j = 0
        for i, t in enumerate(big):
            if j < len(small) and small[j] == t:
                pos.append(i)
                j += 1
        return set(pos) if j == len(small) and pos else None


def g_program(r, v):
    g = Gen(r, v)
    t = r.choice((I, S, IS, IS, SS, B))
    return g.expr(t, (), r.choice((2, 2, 3, 3, 3, 4)))


# ============================================================================ closure templates
def g_closure(r, v):
    """several closures from ONE function expression, called later in random order / multiplicity"""
    tmpl = r.choice(['for', 'for', 'for2', 'forlet', 'for-each', 'map', 'curried', 'rebind', 'rebind', 'selfrec',
                     'foldrec', 'nested'])
    k = r.randint(2, 4)
    vals = r.sample(range(1, 10), k)
    src = ['seq'] + [['int', x] for x in vals]
    npar = r.randint(0, 1)
    x = ['var', 'x']
    i = ['var', 'i']

    def body_of(iv):
        b = r.choice([iv, ['op', '*', iv, ['int', 10]], ['seq', iv, ['int', 0]], ['scall', 'concat', [['str', 'c'], iv]]])
        if npar:
            b = r.choice([['op', '+', ['op', '*', iv, ['int', 100]], x], ['seq', iv, x],
                          ['scall', 'concat', [iv, ['str', '-'], x]],
                          ['if', ['cmp', 'lt', x, iv], ['str', 'lt'], ['str', 'ge']]])
        return b

    fn = ['fn', [['x', None]] if npar else [], body_of(i), None]
    n = k
    if tmpl == 'for':
        fs = [r.choice(['for', 'forc']), 'i', src, fn]
    elif tmpl == 'for2':
        src2 = ['seq', ['int', 20], ['int', 30]]
        fn = ['fn', [['x', None]] if npar else [], body_of(['op', '+', i, ['var', 'j']]), None]
        fs = [r.choice(['for', 'forc']), 'i', src, ['for', 'j', src2, fn]]
        n = 2 * k
    elif tmpl == 'forlet':
        fn = ['fn', [['x', None]] if npar else [], body_of(['var', 'w']), None]
        fs = ['for', 'i', src, ['let', 'w', ['op', '*', i, ['int', 2]], fn]]
    elif tmpl == 'for-each':
        fs = ['scall', 'for-each', [src, ['fn', [['i', None]], fn, None]]]
    elif tmpl == 'map':
        fs = ['map', src, ['let', 'i', ['ctx'], fn]]
    elif tmpl == 'curried':
        fs = ['let', 'mk', ['fn', [['i', None]], fn, None],
              ['seq'] + [['call', ['var', 'mk'], [['int', x_]]] for x_ in vals]]
    elif tmpl == 'nested':
        # closures returning closures: function($x){ function(){ ($i, $x) } }
        inner = ['fn', [], ['seq', i, x], None]
        fn = ['fn', [['x', None]], inner, None]
        npar = 1
        fs = ['for', 'i', src, fn]
    elif tmpl == 'rebind':
        # let $x := 1, $f := function(){$x}, $x := 2 [, $g := function(){$x}] return ($f(), $x, $g(), ...)
        a, b_ = vals[0], vals[1]
        uses = [['call', ['var', 'f'], []], ['var', 'x'], ['call', ['var', 'g'], []], ['call', ['var', 'f'], []]]
        r.shuffle(uses)
        kw = r.choice(['let', 'letc'])
        how = r.choice(['let', 'for', 'param'])
        tail = [kw, 'g', ['fn', [], ['op', '+', ['var', 'x'], ['int', 100]], None], ['seq'] + uses[:r.randint(2, 4)]]
        if how == 'let':
            inner = [kw, 'x', ['int', b_], tail]
        elif how == 'for':
            inner = ['for', 'x', ['seq', ['int', b_], ['int', b_ + 1]], tail]
        else:
            inner = ['call', ['fn', [['x', None]], tail, None], [['int', b_]]]
        return tmpl, [kw, 'x', ['int', a], [kw, 'f', ['fn', [], ['var', 'x'], None], inner]]
    elif tmpl == 'selfrec':
        # let $f := function($n, $self){ if ($n le 0) then Z else OP($n, $self($n - 1, $self)) } return $f(k, $f)
        depth = r.randint(1, 6)
        rec = ['call', ['var', 'self'], [['op', '-', ['var', 'n'], ['int', 1]], ['var', 'self']]]
        kind = r.choice(['sum', 'seq', 'str'])
        if kind == 'sum':
            zero, step = ['int', 0], ['op', '+', ['var', 'n'], rec]
        elif kind == 'seq':
            zero, step = ['seq'], ['seq', ['var', 'n'], rec] if r.random() < 0.5 else ['seq', rec, ['var', 'n']]
        else:
            zero, step = ['str', ''], ['scall', 'concat', [rec, ['var', 'n']]]
        f = ['fn', [['n', None], ['self', None]], ['if', ['cmp', 'le', ['var', 'n'], ['int', 0]], zero, step], None]
        return tmpl, ['let', 'f', f, ['call', ['var', 'f'], [['int', depth], ['var', 'f']]]]
    elif tmpl == 'foldrec':
        # recursion through fold-left / for-each with ONE shared callback item used at both levels
        add = ['fn', [['a', None], ['b', None]], ['op', '+', ['var', 'a'], ['var', 'b']], None]
        inner = ['scall', 'fold-left', [['range', ['int', 1], ['var', 'i']], ['int', 0], ['var', 'add']]]
        if r.random() < 0.5:
            outer = ['scall', 'fold-left', [src, ['int', 0],
                                            ['fn', [['a', None], ['i', None]],
                                             ['call', ['var', 'add'], [['var', 'a'], inner]], None]]]
        else:
            outer = ['scall', 'for-each', [src, ['fn', [['i', None]],
                                                 ['scall', 'for-each', [['range', ['int', 1], ['var', 'i']],
                                                                        ['fn', [['j', None]],
                                                                         ['call', ['var', 'add'], [['var', 'i'], ['var', 'j']]],
                                                                         None]]], None]]]
        return tmpl, ['let', 'add', add, outer]
    # ---- call history over $fs
    hist = [r.randint(1, n) for _ in range(r.randint(2, 6))]
    argv = [['int', r.randint(0, 9)] for _ in hist]

    def callk(kexpr, a):
        c = ['call', ['idx', ['var', 'fs'], kexpr], [a] if npar else []]
        if tmpl == 'nested':
            c = ['call', c, []]
        return c

    style = r.choice(['direct', 'direct', 'forhist', 'map', 'for-each', 'for', 'reverse'])
    if style == 'direct':
        body = ['seq'] + [callk(['int', k_], a) for k_, a in zip(hist, argv)]
    elif style == 'forhist':
        body = ['for', 'k', ['seq'] + [['int', k_] for k_ in hist], callk(['var', 'k'], argv[0])]
    elif style == 'reverse':
        body = ['let', 'fs', ['scall', 'reverse', [['var', 'fs']]],
                ['seq'] + [callk(['int', k_], a) for k_, a in zip(hist, argv)]]
    else:
        one = ['call', ['ctx'] if style == 'map' else ['var', 'h'], [argv[0]] if npar else []]
        if tmpl == 'nested':
            one = ['call', one, []]
        if style == 'map':
            body = ['map', ['var', 'fs'], one]
        elif style == 'for':
            body = ['for', 'h', ['var', 'fs'], one]
        else:
            body = ['scall', 'for-each', [['var', 'fs'], ['fn', [['h', None]], one, None]]]
    prog = ['let', 'fs', fs, body]
    if r.random() < 0.3:
        # the creating scope has advanced and the captured name is re-bound before the calls
        prog = ['let', 'fs', fs, ['let', 'i', ['int', 77], body]]
    return tmpl + '/' + style, prog


# ============================================================================ engine-only equivalences
EXT = [  # (name, [raw argument texts], first version)
    ('upper-case', ["'abc'"], '3.0'), ('lower-case', ["'AbC'"], '3.0'), ('substring', ["'hello world'", '3', '4'], '3.0'),
    ('substring', ["'hello'", '2'], '3.0'), ('string-join', ["('a','b','c')", "'-'"], '3.0'),
    ('round', ['2.567', '2'], '3.0'), ('round', ['2.5'], '3.0'), ('math:pow', ['2', '10'], '3.0'),
    ('translate', ["'abcabc'", "'ab'", "'xy'"], '3.0'), ('replace', ["'banana'", "'a'", "'o'"], '3.0'),
    ('tokenize', ["'a b c'", "' '"], '3.0'), ('contains', ["'hello'", "'ell'"], '3.0'),
    ('substring-before', ["'a=b'", "'='"], '3.0'), ('substring-after', ["'a=b'", "'='"], '3.0'),
    ('subsequence', ['(1,2,3,4,5)', '2', '3'], '3.0'), ('insert-before', ['(1,2,3)', '2', "'x'"], '3.0'),
    ('remove', ['(1,2,3)', '2'], '3.0'), ('index-of', ['(1,2,1)', '1'], '3.0'), ('max', ['(1,5,3)'], '3.0'),
    ('min', ['(4,2,8)'], '3.0'), ('avg', ['(1,2,3)'], '3.0'), ('sum', ['(1,2,3)'], '3.0'), ('sum', ['()', '7'], '3.0'),
    ('codepoints-to-string', ['(97,98)'], '3.0'), ('string-to-codepoints', ["'ab'"], '3.0'),
    ('compare', ["'a'", "'b'"], '3.0'), ('format-integer', ['12', "'001'"], '3.0'), ('xs:integer', ["'12'"], '3.0'),
    ('xs:string', ['12'], '3.0'), ('boolean', ['(1)'], '3.0'), ('number', ["'12'"], '3.0'), ('ceiling', ['1.5'], '3.0'),
    ('floor', ['1.5'], '3.0'), ('round-half-to-even', ['2.5'], '3.0'), ('normalize-space', ["' a  b '"], '3.0'),
    ('ends-with', ["'abc'", "'bc'"], '3.0'), ('starts-with', ["'abc'", "'ab'"], '3.0'),
    ('concat', ["'a'", '1', "'c'"], '3.0'), ('concat', ["'a'", "'b'", "'c'", "'d'", "'e'"], '3.0'),
    ('deep-equal', ['(1,2)', '(1,2)'], '3.0'), ('exactly-one', ['1'], '3.0'), ('string-length', ["'abc'"], '3.0'),
    ('head', ['(1,2,3)'], '3.0'), ('tail', ['(1,2,3)'], '3.0'), ('reverse', ['(1,2,3)'], '3.0'),
    ('count', ['(1,2,3)'], '3.0'), ('empty', ['()'], '3.0'), ('exists', ['()'], '3.0'), ('not', ['true()'], '3.0'),
    ('true', [], '3.0'), ('false', [], '3.0'), ('abs', ['-3'], '3.0'), ('string', ['12'], '3.0'),
    ('math:sqrt', ['16'], '3.0'), ('distinct-values', ['(1,1,2)'], '3.0'), ('matches', ["'abc'", "'b'"], '3.0'),
    ('array:size', ['[1,2]'], '3.1'), ('map:get', ["map{'a':1}", "'a'"], '3.1'), ('array:get', ['[5,6]', '2'], '3.1'),
    ('map:contains', ["map{'a':1}", "'b'"], '3.1'), ('map:size', ["map{'a':1}"], '3.1'),
    ('array:append', ['[1]', '2'], '3.1'), ('array:subarray', ['[1,2,3]', '2', '1'], '3.1'),
    ('string-join', ['(1,2,3)', "','"], '3.1'), ('tokenize', ["' a b '"], '3.1'),
    ('contains-token', ["'a b'", "'b'"], '3.1'), ('array:join', ['([1],[2])'], '3.1'),
]


def raws(args):
    return [['raw', a] for a in args]


def g_equiv(r, v):
    """-> (rel, lhs, [rhs...])"""
    g = Gen(r, v)
    rel = r.choice(['named-ref', 'named-ref', 'partial-static', 'partial-static', 'partial-inline', 'partial-chain',
                    'partial-siblings', 'partial-siblings',
                    'repeat', 'expand:for-each', 'expand:filter', 'expand:fold-left', 'expand:fold-right',
                    'expand:for-each-pair', 'expand:apply', 'ref-in-hof', 'focus-ref', 'focus-ref'])
    if rel == 'focus-ref':
        # name#0 of a focus-dependent function keeps the focus it was created under, however late it is called
        X = r.choice((I, S))
        src = ['seq'] + [g.lit(X) for _ in range(r.randint(1, 4))]
        name = r.choice(['string', 'string', 'string-length', 'position', 'last'])
        direct = {'string': lambda q: ['scall', 'string', [q]],
                  'string-length': lambda q: ['scall', 'string-length', [['scall', 'string', [q]]]]}
        refs = ['map', src, ['ref', name, 0]]
        form = r.choice(['for', 'let-for', 'hof', 'map-call'])
        if form == 'for':
            lhs = ['for', 'f', refs, ['call', ['var', 'f'], []]]
        elif form == 'let-for':
            lhs = ['let', 'fs', refs, ['for', 'f', ['var', 'fs'], ['call', ['var', 'f'], []]]]
        elif form == 'hof':
            lhs = ['scall', 'for-each', [refs, ['fn', [['h', None]], ['call', ['var', 'h'], []], None]]]
        else:
            lhs = ['map', ['let', 'fs', refs, ['var', 'fs']], ['call', ['ctx'], []]]
        if name in direct:
            return rel, lhs, [['for', 'q', src, direct[name](['var', 'q'])]]
        n = len(src) - 1
        if name == 'position':
            return rel, lhs, [['range', ['int', 1], ['int', n]]]
        return rel, lhs, [['for', 'q', src, ['int', n]]]
    if rel == 'expand:apply' and v < '3.1':
        rel = 'expand:fold-left'
    if rel in ('named-ref', 'partial-static', 'partial-chain', 'repeat', 'partial-siblings') and r.random() < 0.8:
        name, args, _ = r.choice([e for e in EXT if e[2] <= v])
        args = raws(args)
    else:
        name, sig, _ = r.choice(g.sigs)
        args = [g.expr(a, (), 1) for a in sig]
    direct = ['scall', name, args]
    n = len(args)
    if rel == 'named-ref':
        form = r.choice(['call', 'paren', 'let', 'seq1', 'if'])
        ref = ['ref', name, n]
        if form == 'call':
            return rel, ['call', ref, args], [direct]
        if form == 'paren':
            return rel, ['call', ['paren', ref], args], [direct]
        if form == 'let':
            return rel, ['let', 'f', ref, ['call', ['var', 'f'], args]], [direct]
        if form == 'if':
            return rel, ['call', ['if', ['bool', True], ref, ['ref', 'true', 0]], args], [direct]
        return rel, ['call', ['idx', ['seq', ['ref', 'true', 0], ref], ['int', 2]], args], [direct]
    if rel in ('partial-static', 'partial-chain', 'repeat') and n == 0:
        rel = 'partial-inline'
    if rel == 'partial-siblings' and n < 2:
        rel = 'partial-static' if n else 'partial-inline'
    if rel == 'partial-siblings':
        # one item bound to $f, partially applied twice or three times with different placeholders, every partial
        # function (and $f itself) called afterwards: each call gives what the direct call gives
        k = r.randint(2, 3)
        masks = []
        while len(masks) < k:
            m = [r.random() < 0.5 for _ in args]
            if any(m) and not all(m) and m not in masks:
                masks.append(m)
            elif n == 2 and len(masks) == 2:
                break
        binds = [('f', ['ref', name, n])]
        calls = []
        for i, m in enumerate(masks):
            binds.append(('g%d' % i, ['pcall', ['var', 'f'], [None if q else a for a, q in zip(args, m)]]))
            calls.append(['call', ['var', 'g%d' % i], [a for a, q in zip(args, m) if q]])
        calls.append(['call', ['var', 'f'], args])
        r.shuffle(calls)
        body = ['seq'] + calls
        for nm, ex in reversed(binds):
            body = ['let', nm, ex, body]
        return rel, body, [direct] * len(calls)
    if rel == 'partial-static':
        mask = [r.random() < 0.5 for _ in args]
        if not any(mask):
            mask[r.randrange(n)] = True
        p = ['scall', name, [None if m else a for a, m in zip(args, mask)]]
        rest = [a for a, m in zip(args, mask) if m]
        if r.random() < 0.3:
            return rel, ['let', 'p', p, ['call', ['var', 'p'], rest]], [direct]
        return rel, ['call', p, rest], [direct]
    if rel == 'partial-chain':
        # f(?,?,?)(a,?,?)(b,?)(c)  - one argument fixed per step, in random positions
        cur = ['scall', name, [None] * n] if r.random() < 0.5 else ['pcall', ['ref', name, n], [None] * n]
        remaining = list(args)
        while len(remaining) > 1:
            j = r.randrange(len(remaining))
            cur = ['pcall', cur, [remaining[q] if q == j else None for q in range(len(remaining))]]
            remaining.pop(j)
        return rel, ['call', cur, remaining], [direct]
    if rel == 'partial-inline':
        np_ = r.randint(1, 3)
        pt = [r.choice((I, S)) for _ in range(np_)]
        names = ['a', 'b', 'c'][:np_]
        env = tuple(zip(names, pt))
        f = ['fn', [[nm, None] for nm in names], g.expr(r.choice((I, S, IS)), env, 2), None]
        args = [g.lit(t) for t in pt]
        mask = [r.random() < 0.5 for _ in args]
        if not any(mask):
            mask[r.randrange(np_)] = True
        lhs = ['let', 'f', f, ['call', ['pcall', ['var', 'f'], [None if m else a for a, m in zip(args, mask)]],
                               [a for a, m in zip(args, mask) if m]]]
        rhs = ['let', 'f', f, ['call', ['var', 'f'], args]]
        return rel, lhs, [rhs]
    if rel == 'repeat':
        # one item (reference or partial application) called k times, interleaved with another call
        k = r.randint(2, 4)
        how = r.choice(['ref', 'partial'])
        if how == 'ref':
            fx, rest = ['ref', name, n], args
        else:
            j = r.randrange(n)
            fx = ['scall', name, [None if q == j else a for q, a in enumerate(args)]]
            rest = [args[j]]
        return rel + '-' + how, ['let', 'f', fx, ['seq'] + [['call', ['var', 'f'], rest] for _ in range(k)]], \
            [direct] * k
    if rel == 'ref-in-hof':
        name, sig, ret = r.choice([s for s in g.sigs if len(s[1]) == 1 and s[1][0] in (I, S)])
        src = g.lit(star(sig[0]))
        return rel, ['scall', 'for-each', [src, ['ref', name, 1]]], \
            [['for', 'q', src, ['scall', name, [['var', 'q']]]]]
    # ---- HOF vs definitional expansion written with for / if / direct calls
    X = r.choice((I, S))
    items = [g.lit(X) for _ in range(r.randint(0, 4))]
    src = ['seq'] + items
    if rel == 'expand:for-each':
        f = g.fexpr(F((X,), r.choice((I, S, IS))), (), 2)
        return rel, ['let', 'f', f, ['scall', 'for-each', [src, ['var', 'f']]]], \
            [['let', 'f', f, ['for', 'q', src, ['call', ['var', 'f'], [['var', 'q']]]]]]
    if rel == 'expand:filter':
        f = g.fexpr(F((X,), B), (), 2)
        return rel, ['let', 'f', f, ['scall', 'filter', [src, ['var', 'f']]]], \
            [['let', 'f', f, ['for', 'q', src, ['if', ['call', ['var', 'f'], [['var', 'q']]], ['var', 'q'], ['seq']]]]]
    if rel in ('expand:fold-left', 'expand:fold-right'):
        Z = r.choice((I, S, IS))
        left = rel.endswith('left')
        f = g.fexpr(F((Z, X) if left else (X, Z), Z), (), 2)
        zero = g.lit(Z)
        acc = zero
        for it in (items if left else reversed(items)):
            acc = ['call', ['var', 'f'], [acc, it] if left else [it, acc]]
        return rel, ['let', 'f', f, ['scall', rel[7:], [src, zero, ['var', 'f']]]], [['let', 'f', f, acc]]
    if rel == 'expand:for-each-pair':
        Y = r.choice((I, S))
        items2 = [g.lit(Y) for _ in range(r.randint(0, 4))]
        f = g.fexpr(F((X, Y), r.choice((I, S, IS))), (), 2)
        pairs = ['seq'] + [['call', ['var', 'f'], [a, b]] for a, b in zip(items, items2)]
        return rel, ['let', 'f', f, ['scall', 'for-each-pair', [src, ['seq'] + items2, ['var', 'f']]]], \
            [['let', 'f', f, pairs]]
    # expand:apply
    pt = [g.randtype(False) for _ in range(r.randint(0, 3))]
    f = g.fexpr(F(pt, r.choice((I, S, IS))), (), 2)
    args = [g.lit(t) for t in pt]
    return 'expand:apply', ['let', 'f', f, ['scall', 'apply', [['var', 'f'], ['arr', args]]]], \
        [['let', 'f', f, ['call', ['var', 'f'], args]]]


# ============================================================================ sort
NUMVALS = ['-2', '-0.5', '0', '0.25', '0.5', '1', '1.5', '2', '3']
SORTSTRS = ['a', 'B', 'b', '', 'ab', 'a ', 'é', 'z', '\U00010000', '～', 'A', 'aa', 'Z']


def g_num(r, mixed):
    x = r.choice(NUMVALS)
    if not mixed:
        return ['int', r.randint(-2, 3)]
    q = r.random()
    if q < 0.04:
        return ['dbl', r.choice(['NaN', 'INF', '-INF', '-0.0e0'])]
    integral = '.' not in x
    kinds = ['dec', 'dbl', 'flt'] + (['int', 'int'] if integral else [])
    k = r.choice(kinds)
    if k == 'int':
        return ['int', int(x)]
    if k == 'dec':
        return ['dec', x + r.choice(['', '0']) if '.' in x else x + '.0']
    if k == 'dbl':
        return ['dbl', x + 'e0']
    return ['flt', x]


def g_sort(r):
    kc = r.choice(['int', 'mixed-numeric', 'mixed-numeric', 'string', 'string', 'bool', 'sequence', 'sequence',
                   'derived', 'derived', 'plain', 'plain', 'incomparable', 'type-dependent-key', 'type-dependent-key'])
    n = r.randint(2, 9)
    case = {'v': '3.1', 'api': r.choice(['select', 'evaluate']), 'kc': kc,
            'coll': r.choice(['()', '()', 'uri']), 'via': r.choice(['static', 'static', 'ref', 'partial'])}
    if kc in ('derived',):
        lo = r.choice([0, 0, -5])
        items = r.sample(range(lo, lo + 30), n)
        case['items'] = [['int', x] for x in items]
        xv = ['var', 'x']
        m = ['int', r.randint(2, 4)]
        nn = ['op', '+', xv, ['int', 5]] if lo < 0 else xv
        fns = [
            ['fn', [['x', None]], ['op', 'mod', nn, m], None],
            ['fn', [['x', None]], ['neg', xv], None],
            ['fn', [['x', None]], ['seq', ['op', 'mod', nn, ['int', 2]], ['op', 'mod', nn, ['int', 3]]], None],
            ['fn', [['x', None]], ['scall', 'string', [['op', 'mod', nn, m]]], None],
            ['fn', [['x', None]], ['scall', 'string', [xv]], None],
            ['fn', [['x', None]], ['if', ['cmp', 'eq', ['op', 'mod', nn, ['int', 2]], ['int', 0]], ['seq'],
                                   ['op', 'mod', nn, ['int', 3]]], None],
            ['ref', 'abs', 1], ['ref', 'string', 1],
            ['let', 'm', m, ['fn', [['x', None]], ['op', 'mod', nn, ['var', 'm']], None]],
            ['pcall', ['fn', [['x', None], ['m', None]], ['op', 'mod', nn, ['var', 'm']], None], [None, m]],
            ['fn', [['x', 'xs:integer']], ['op', 'mod', nn, m], 'xs:integer'],
        ]
        case['keyfn'] = r.choice(fns)
        case['extract'] = None
        return case
    if kc == 'type-dependent-key':
        # items that are equal as numbers (1, 1.0, 1e0, xs:float('1')) but whose key depends on their TYPE:
        # an implementation that caches keys by item value confuses them
        base = [str(r.randint(0, 3)) for _ in range(r.randint(1, 3))]
        items = []
        for _ in range(n):
            x = r.choice(base)
            k = r.choice(['int', 'dec', 'dbl', 'flt'])
            items.append({'int': ['int', int(x)], 'dec': ['dec', x + '.0'], 'dbl': ['dbl', x + 'e0'], 'flt': ['flt', x]}[k])
        case['items'] = items
        xv = ['var', 'x']
        T = r.choice(['xs:double', 'xs:integer', 'xs:decimal', 'xs:float'])
        case['keyfn'] = r.choice([
            ['fn', [['x', None]], ['if', ['inst', xv, T], ['int', r.choice([10, -10])], xv], None],
            ['fn', [['x', None]], ['if', ['inst', xv, T], ['op', '+', xv, ['int', 100]], ['neg', xv]], None],
            ['fn', [['x', None]], ['seq', ['inst', xv, T], xv], None],
        ])
        case['extract'] = None
        return case
    if kc == 'plain':
        sub = r.choice(['int', 'mixed-numeric', 'string'])
        case['items'] = [g_num(r, sub == 'mixed-numeric') if sub != 'string' else ['str', r.choice(SORTSTRS)]
                         for _ in range(n)]
        case['keyfn'] = r.choice([None, None, ['fn', [['x', None]], ['var', 'x'], None]])
        if case['keyfn'] is None:
            case['coll'] = r.choice([None, '()', 'uri'])
        case['extract'] = None
        case['kc'] = 'plain-' + sub
        return case
    keys = []
    if kc == 'sequence':
        shape = [r.choice(['i', 's']) for _ in range(3)]
        for _ in range(n):
            ln = r.randint(0, 3)
            keys.append(['seq'] + [['int', r.randint(0, 2)] if shape[p] == 'i' else ['str', r.choice(['a', 'b', ''])]
                                   for p in range(ln)])
    elif kc == 'incomparable':
        a, b_ = r.sample(['num', 'str', 'bool'], 2)
        mk = {'num': lambda: g_num(r, True), 'str': lambda: ['str', r.choice(SORTSTRS)],
              'bool': lambda: ['bool', r.random() < 0.5]}
        keys = [mk[a](), mk[b_]()] + [mk[r.choice((a, b_))]() for _ in range(n - 2)]
        r.shuffle(keys)
    else:
        for _ in range(n):
            if kc == 'int':
                keys.append(['int', r.randint(-2, 2)])
            elif kc == 'mixed-numeric':
                keys.append(g_num(r, True))
            elif kc == 'string':
                keys.append(['str', r.choice(SORTSTRS)])
            else:
                keys.append(['bool', r.random() < 0.5])
    case['items'] = [['arr', [k, ['int', i + 1]]] for i, k in enumerate(keys)]
    av = ['var', 'a']
    case['keyfn'] = r.choice([
        ['fn', [['a', None]], ['call', av, [['int', 1]]], None],
        ['fn', [['a', None]], ['call', av, [['int', 1]]], None],
        ['let', 'k', ['int', 1], ['fn', [['a', None]], ['call', av, [['var', 'k']]], None]],
        ['fn', [['a', 'function(*)']], ['call', av, [['int', 1]]], None],
        ['scall', 'array:get', [None, ['int', 1]]],
        ['fn', [['a', None]], ['scall', 'array:get', [av, ['int', 1]]], None],
    ])
    case['extract'] = 'arr2'
    return case


def sort_ast(case):
    args = [['seq'] + case['items']]
    coll = case.get('coll')
    kf = case.get('keyfn')
    if kf is not None or coll is not None:
        args.append(['seq'] if coll in ('()', None) else ['str', CODEPOINT])
    if kf is not None:
        args.append(kf)
    via = case.get('via', 'static')
    if via == 'ref':
        e = ['call', ['ref', 'sort', len(args)], args]
    elif via == 'partial':
        e = ['call', ['scall', 'sort', [None] + args[1:]], [args[0]]]
    else:
        e = ['scall', 'sort', args]
    if case.get('extract') == 'arr2':
        e = ['map', e, ['call', ['ctx'], [['int', 2]]]]
    return e


def atom_label(x):
    if isinstance(x, bool):
        return 'boolean'
    if isinstance(x, fl.Flt):
        return 'NaN' if x != x else 'float'
    if isinstance(x, float):
        return 'NaN' if x != x else 'double'
    if isinstance(x, int):
        return 'integer'
    if fl.is_num(x):
        return 'decimal'
    return 'string'


def key_class(keys):
    cls = set()
    for k in keys:
        if len(k) != 1:
            cls.add('seq')
        for x in k:
            cls.add(atom_label(x))
    return '+'.join(sorted(cls)) or 'empty'


def prim_class(x):
    lab = atom_label(x)
    return {'boolean': 'bool', 'string': 'str'}.get(lab, 'num')


def keyfn_form(case):
    kf = case.get('keyfn')
    if kf is None:
        return 'none'
    if kf[0] == 'fn':
        return 'typed-inline' if any(t is not None for _, t in kf[1]) else 'inline'
    return {'let': 'closure', 'pcall': 'partial', 'scall': 'partial', 'ref': 'named-ref'}.get(kf[0], kf[0])


def sort_verdict(case):
    """-> ('undecided', why) | ('ok',) | ('fail', category, keyclass, text, expected, got)"""
    v, api = case['v'], case['api']
    ip = Interp(v)
    try:
        items = [ip.run(it) for it in case['items']]
        if any(len(it) != 1 for it in items):
            raise ModelError('items must be singletons')
        items = [it[0] for it in items]
        if case.get('keyfn') is not None:
            f = ip.run(case['keyfn'])[0]
            keys = [fl.atomize(ip.apply(f, [[it]])) for it in items]
        else:
            keys = [fl.atomize([it]) for it in items]
    except (ModelError, RecursionError, IndexError):
        return ('undecided', 'sort-model')
    kc = key_class(keys)
    text = render(sort_ast(case))
    o = eng(text, v, api)
    try:
        order = fl.stable_sort(items, keys)
    except SortTypeError:
        if not all(len(k) == 1 for k in keys):
            return ('undecided', 'sort-incomparable-seq')
        pc = '~'.join(sorted({prim_class(k[0]) for k in keys}))
        if o[0] == 'ok':
            return ('fail', 'incomparable-keys-accepted', pc, text, 'XPTY0004', o[1], keys)
        if o[0] == 'exc':
            return ('fail', mismatch_kind(o), 'incomparable', text, 'XPTY0004', list(o), keys)
        if o[1] != 'XPTY0004':
            return ('undecided', 'sort-error-code:' + o[1])
        return ('ok', 'sort:incomparable', kc, text, o, keys)
    except ModelError:
        return ('undecided', 'sort-model')

    def ext(it):
        if case.get('extract') == 'arr2':
            return fl.describe(it.members[1][0])
        return fl.describe(it)

    din = [ext(it) for it in items]
    expected = [din[i] for i in order]
    if o[0] != 'ok':
        return ('fail', mismatch_kind(o), 'keyfn=%s/via=%s' % (keyfn_form(case), case.get('via')), text, expected,
                list(o), keys)
    got = o[1]
    if got == expected:
        return ('ok', 'sort:stable-order', kc, text, o, keys)
    if sorted(map(repr, got)) != sorted(map(repr, din)):
        return ('fail', 'not-permutation', kc, text, expected, got, keys)
    keyof = {}
    for d, k in zip(din, keys):
        keyof.setdefault(repr(d), k)
    try:
        ordered = all(fl.key_cmp(keyof[repr(a)], keyof[repr(b)]) <= 0 for a, b in zip(got, got[1:]))
    except ModelError:
        return ('undecided', 'sort-model')
    return ('fail', 'order' if not ordered else 'stability', kc, text, expected, got, keys)


def check_sort(case, out):
    r = sort_verdict(case)
    if r[0] == 'undecided':
        out.dim('undecided', r[1])
        out.nontrivial = False
        return
    keys = r[-1]
    out.dim('sort_key_class', key_class(keys))
    out.dim('sort_form', 'via=%s/%s/coll=%s/keyfn=%s' % (case.get('via'), case.get('extract') or 'plain',
                                                        case.get('coll'), keyfn_form(case)))
    out.dim('sort_size', len(keys))
    ties = len(keys) - len({repr(fl.describe(k)) for k in keys})
    out.dim('sort_ties', 'yes' if ties else 'no')
    if r[0] == 'ok':
        out.dim('oracle', r[1])
        out.obs = '%s -> %s' % (r[3][:110], r[4][1] if r[4][0] == 'ok' else list(r[4]))
        return
    out.dim('oracle', 'sort:incomparable' if r[4] == 'XPTY0004' else 'sort:stable-order')
    cat = r[1]
    if cat in ('order', 'stability', 'not-permutation'):
        # reduce to a minimal failing sub-multiset of the items (same category), key by its key types
        cur, res = case, r
        improved = True
        while improved and len(cur['items']) > 2:
            improved = False
            for i in range(len(cur['items'])):
                cand = dict(cur, items=cur['items'][:i] + cur['items'][i + 1:])
                r2 = sort_verdict(cand)
                if r2[0] == 'fail' and r2[1] == cat:
                    cur, res, improved = cand, r2, True
                    break
        r = res
        labs = {atom_label(x) for k in r[-1] for x in k}
        if 'NaN' in labs:
            kc = 'NaN'
        elif any(len(k) != 1 for k in r[-1]):
            kc = 'seq'
        elif labs <= {'boolean'} or labs <= {'string'}:
            kc = '+'.join(labs)
        elif labs <= {'integer', 'decimal', 'double', 'float'}:
            kc = 'double+float' if {'double', 'float'} <= labs else 'numeric'
        else:
            kc = 'mixed'
        out.fail('C16/sort/%s/%s' % (cat, kc), {'expr': r[3], 'expected': r[4], 'got': r[5]})
    else:
        out.fail('C16/sort/%s/%s' % (cat, r[2]), {'expr': r[3], 'expected': r[4], 'got': r[5]})
    out.obs = '%s -> %s' % (r[3][:110], r[5])


# ============================================================================ harness interface
def check_program(case, out):
    v, api, ast = case['v'], case['api'], case['prog']
    m = model_run(ast, v)
    if m is None:
        out.dim('undecided', 'model')
        out.nontrivial = False
        return
    exp, ip = m
    if has_fitem(exp):
        out.dim('undecided', 'function-item-in-result')
        out.nontrivial = False
        return
    out.nontrivial = ip.calls > 0
    for f in sorted(ip.features):
        out.dim('feature', f.split(':')[0] if f.startswith('placeholders') else f)
        if f.startswith('placeholders'):
            out.dim('placeholders', f.split(':')[1])
    out.dim('primary_feature', feature_of(ip.features))
    out.dim('version_api', '%s/%s' % (v, api))
    out.dim('calls_per_program', min(ip.calls, 20))
    if case.get('tmpl'):
        out.dim('template', case['tmpl'])
    out.dim('oracle', 'model-vs-engine')
    text = render(ast)
    o = eng(text, v, api)
    out.obs = '%s -> %s' % (text[:140], (o[1] if o[0] == 'ok' else list(o)))
    if o[0] == 'ok' and o[1] == exp:
        return
    report_program(ast, v, api, ip, exp, o, out)


def report_program(ast, v, api, ip, exp, o, out):
    text = render(ast)
    if o[0] == 'err' and o[1] == 'XPST0008' and for_var_in_range(ast):
        # parse-time over-approximation: "for $x in E" rejected when E mentions any $x (outer or inner binding)
        out.fail('C16/scope/for-variable-named-in-its-range-expression/err:XPST0008',
                 {'expr': text[:400], 'expected': exp, 'got': list(o)})
        return
    first = (mismatch_kind(o, exp), ip.features, exp, o)
    small, (mk, feats, exp2, o2) = minimise(ast, v, api, first)
    feat = feature_of(feats, mk)
    if feat.startswith('fold-zero') and mk.startswith('err:'):
        mk = 'error'      # XPTY0004 directly, FOAP0001 / FORG0006 ... when wrapped by an enclosing call
    out.fail(c16_key(feat, mk),
             {'expr': render(small), 'expected': exp2, 'got': list(o2), 'features': sorted(feats),
              'original': text[:400]})


REL_FEATURE = {'partial-chain': 'partial-chained', 'partial-inline': 'partial-dynamic', 'ref-in-hof': 'named-ref',
               'repeat-ref': 'named-ref', 'repeat-partial': 'partial-static'}
REL_FEATURE.update(('expand:' + h, 'fn:' + h) for h in HOFS)


def check_equiv(case, out):
    v, api, rel = case['v'], case['api'], case['rel']
    out.dim('equiv_rel', rel)
    lt = render(case['lhs'])
    rts = [render(x) for x in case['rhs']]
    exp = []
    for rt in rts:
        o = eng(rt, v, api)
        if o[0] != 'ok':
            out.dim('undecided', 'direct-side-raises')
            out.nontrivial = False
            out.obs = '%s raises %s' % (rt[:100], list(o))
            return
        exp.extend(o[1])
    out.dim('oracle', 'engine-vs-engine')
    o = eng(lt, v, api)
    out.obs = '%s == %s -> %s' % (lt[:90], ' , '.join(rts)[:90], o[1] if o[0] == 'ok' else list(o))
    if not (o[0] == 'ok' and o[1] == exp):
        m = model_run(case['lhs'], v)
        if m is not None and not has_fitem(m[0]) and not (o[0] == 'ok' and o[1] == m[0]):
            # the model covers the indirect side: classify by the features of the reduced program
            report_program(case['lhs'], v, api, m[1], m[0], o, out)
        else:
            feat, mk = REL_FEATURE.get(rel, rel), mismatch_kind(o, exp)
            if rel == 'partial-siblings':
                # is one of the partial applications wrong on its own (the listed partial-application defects), or
                # only when its siblings exist (interference between the copies of one item)?
                binds, node = [], case['lhs']
                while node[0] == 'let':
                    binds.append((node[1], node[2]))
                    node = node[3]
                alone_wrong = False
                for nm, ex in binds[1:]:
                    call_ = next(c for c in node[1:] if c[1] == ['var', nm])
                    oa = eng(render(['let', 'f', binds[0][1], ['let', nm, ex, call_]]), v, api)
                    if not (oa[0] == 'ok' and oa[1] == exp[:len(oa[1]) if oa[0] == 'ok' else 0] and oa[1]):
                        alone_wrong = True
                feat = 'partial-dynamic' if alone_wrong else 'partial-siblings-interfere'
            if rel.startswith('expand:fold') and mk.startswith('err:'):
                try:
                    zero = case['lhs'][3][2][1]
                    n = len(zero) - 1 if zero[0] == 'seq' else 1
                    if n != 1:
                        feat, mk = ('fold-zero-multi' if n > 1 else 'fold-zero-empty'), 'error'
                except (IndexError, TypeError):
                    pass
            out.fail(c16_key(feat, mk),
                     {'lhs': lt, 'rhs': rts, 'expected': exp, 'got': list(o)})
    # the direct side against the model, when the model covers it
    r_ast, rt = case['rhs'][0], rts[0]
    m = model_run(r_ast, v)
    if m is not None and not has_fitem(m[0]):
        out.dim('oracle', 'model-vs-engine-direct')
        o2 = eng(rt, v, api)
        if not (o2[0] == 'ok' and o2[1] == m[0]):
            report_program(r_ast, v, api, m[1], m[0], o2, out)


def _model_is_cheap(ast, v):
    """True when the reference evaluates the program within a small step budget and to a small value:
    only then is a CPU-budget overrun of the engine attributable to the engine"""
    ip = Interp(v, max_steps=5000)
    try:
        val = ip.run(ast)
    except (ModelError, RecursionError, MemoryError):
        return False
    return len(val) < 5000


def check_case(kind, case):
    from ..core import CpuBudget
    try:
        return _check_case(kind, case)
    except CpuBudget:
        ast = case.get('prog') or case.get('lhs')
        if ast is not None and not _model_is_cheap(ast, case['v']):
            # generated programs may square their output at every fold step: expensive for any evaluator
            out = Outcome()
            out.nontrivial = False
            out.dim('undecided', 'cpu-budget-on-a-program-the-model-finds-expensive-too')
            return out
        raise


def _check_case(kind, case):
    out = Outcome()
    if kind in ('program', 'closure'):
        check_program(case, out)
    elif kind == 'equiv':
        check_equiv(case, out)
    elif kind == 'sort':
        out.nontrivial = len(case['items']) >= 2
        check_sort(case, out)
    else:
        raise ValueError(kind)
    return out


def shrink(kind, case):
    if kind in ('program', 'closure'):
        ast = case['prog']
        n = 0
        for p, s in fl.subterms(ast):
            if p and fl.size(s) < fl.size(ast):
                n += 1
                if n > 60:
                    break
                yield dict(case, prog=s)
        for cand in local_candidates(ast):
            n += 1
            if n > 200:
                break
            yield dict(case, prog=cand)
    elif kind == 'sort':
        items = case['items']
        for i in range(len(items)):
            if len(items) > 2:
                yield dict(case, items=items[:i] + items[i + 1:])
        if case.get('via') != 'static':
            yield dict(case, via='static')


def run(h):
    r = h.rng
    apis = ['select', 'evaluate']
    for i in range(h.n(1200)):
        v = '3.0' if i % 2 else '3.1'
        tmpl, prog = g_closure(r, v)
        h.case('closure', {'v': v, 'api': apis[(i // 2) % 2], 'tmpl': tmpl, 'prog': prog})
    for i in range(h.n(3500)):
        v = '3.0' if i % 2 else '3.1'
        h.case('program', {'v': v, 'api': apis[(i // 2) % 2], 'prog': g_program(r, v)})
    for i in range(h.n(2500)):
        v = '3.0' if i % 2 else '3.1'
        rel, lhs, rhs = g_equiv(r, v)
        h.case('equiv', {'v': v, 'api': apis[(i // 2) % 2], 'rel': rel, 'lhs': lhs, 'rhs': rhs})
    for i in range(h.n(1600)):
        h.case('sort', g_sort(r))


def floors(v):
    reasons = []
    if v.got('oracle', 'model-vs-engine') < 1500:
        reasons.append('fewer than 1500 programs compared with the model')
    if v.got('oracle', 'engine-vs-engine') < 800:
        reasons.append('fewer than 800 engine-only equivalences decided')
    if v.got('oracle', 'sort:stable-order') < 600:
        reasons.append('fewer than 600 sort results compared with the stable order')
    for f in ('closure-multi', 'recursion', 'partial-dynamic', 'partial-static', 'partial-chained', 'named-ref',
              'rebind', 'fn:for-each', 'fn:filter', 'fn:fold-left', 'fn:fold-right', 'fn:for-each-pair',
              'fn:apply', 'fn:sort'):
        if v.got('feature', f) < 20:
            reasons.append('feature %s exercised fewer than 20 times' % f)
    return reasons
