"""C14 - fn:path / node path strings / etree_iter_paths identify each node uniquely.

Oracle = identity: the path string is evaluated back against the same root and must select exactly
the node it was produced for; distinct nodes must have distinct paths."""
import copy

from ..core import Outcome
from ..engine import call, PARSERS
from .. import gen_xml
from ..gen_xml import NS_POOL
from .c02 import expected_shape

from elementpath import XPathContext, get_node_tree, select
from elementpath.etree import etree_iter_paths
from elementpath.xpath_nodes import XPathNode, DocumentNode, ElementNode, AttributeNode, NamespaceNode, \
    TextNode, CommentNode, ProcessingInstructionNode

PROPERTY = 'C14'
LEVEL = 'exploration'
RULE = ('random documents (repeated names, namespaced and default-namespace names, namespaced attributes, PIs with '
        'NCName targets incl. names that are also functions/keywords, interleaved text/comment/PI siblings, '
        'document-level siblings for lxml) x {ElementTree, lxml} x {document root, element root, fragment}; every node '
        'of every tree is a probe; a case is non-trivial when the tree has >= 3 nodes and two siblings of the same '
        'kind; distinct by canonical JSON of (document, configuration).')
ASSUMPTIONS = [
    'node identity (Python object identity of XPathNode objects of one node tree) is the oracle; no model is needed',
    'the path string is evaluated with the XPath 3.0 and 3.1 parsers in a context on the same node tree '
    '(context item = the tree root, so that fn:root() in fragment paths is defined)',
]

KIND = {DocumentNode: 'document', ElementNode: 'element', AttributeNode: 'attribute', NamespaceNode: 'namespace',
        TextNode: 'text', CommentNode: 'comment', ProcessingInstructionNode: 'pi'}
FUNCTION_LIKE = {'pi', 'exp', 'map', 'text', 'if', 'node', 'item'}


def kind_of(n):
    for cls, k in KIND.items():
        if isinstance(n, cls):
            return k
    return type(n).__name__


def name_class(n):
    k = kind_of(n)
    if k == 'pi':
        return 'pi-target=function-or-keyword-name' if n.name in FUNCTION_LIKE else 'pi-target=plain'
    if k in ('element', 'attribute'):
        return 'namespaced' if (n.name or '').startswith('{') else 'no-namespace'
    if k == 'namespace':
        return 'default-namespace' if not n.prefix else 'prefixed'
    return 'n/a'


def sibling_class(n):
    p = n.parent
    if p is None or not hasattr(p, 'children') or n not in list(p.children):
        return 'n/a'
    sibs = [c for c in p.children if kind_of(c) == kind_of(n)]
    if kind_of(n) == 'pi':
        targets = {c.name for c in sibs}
        return 'pi-siblings:other-targets' if len(targets) > 1 else ('pi-siblings:same-target' if len(sibs) > 1 else 'single')
    if kind_of(n) == 'element':
        same_name_pi = any(kind_of(c) == 'pi' and c.name == n.name for c in p.children)
        if same_name_pi:
            return 'element-with-same-named-pi-sibling'
        same = [c for c in sibs if c.name == n.name]
        return 'same-name-siblings' if len(same) > 1 else ('other-name-siblings' if len(sibs) > 1 else 'single')
    return 'several' if len(sibs) > 1 else 'single'


DEFAULT_NS = dict(NS_POOL, **{'': NS_POOL['d']})     # a parser with a default element namespace


def evaluate_path(path, root_node, ver, nsarg):
    """ver '3.1d': an XPath 3.1 parser configured with a default element namespace; the generated paths spell
    every name as Q{uri}local, so the configuration must not change what they select"""
    def run():
        if ver.endswith('d'):
            tok = PARSERS[ver[:-1]](namespaces=DEFAULT_NS).parse(path)
        else:
            tok = PARSERS[ver](namespaces=NS_POOL).parse(path)
        ctx = XPathContext(root=root_node, namespaces=nsarg, item=root_node)
        return list(tok.select(ctx))
    return call(run)


def check_case(kind, case):
    out = Outcome()
    spec = case['doc']
    lib = case['lib']
    twin = gen_xml.build_et(spec) if lib == 'et' else gen_xml.build_lxml(spec)
    root_obj = twin.tree if case['root'] == 'tree' else twin.root_elem
    nsarg = dict(NS_POOL) if lib == 'et' else None
    r = call(get_node_tree, root_obj, nsarg, None, case['fragment'])
    cfg = '%s/%s/frag=%s' % (lib, case['root'], case['fragment'])
    out.dim('config', cfg)
    if r[0] != 'ok':
        out.fail('C14/build/%s' % r[1], repr(r))
        return out
    root_node = r[1]
    nodes = list(root_node.iter())
    seen_paths = {}
    interesting = False
    for n in nodes:
        k = kind_of(n)
        nc, sc = name_class(n), sibling_class(n)
        if sc not in ('single', 'n/a'):
            interesting = True
        out.dim('node_kind', k)
        out.dim('sibling_class', sc)
        sources = {}
        p = call(lambda: n.path)
        sources['node.path'] = p
        for ver in ('3.0', '3.1'):
            def fnpath(ver=ver):
                tok = PARSERS[ver](namespaces=NS_POOL).parse('path(.)')
                ctx = XPathContext(root=root_node, namespaces=nsarg, item=n)
                return tok.evaluate(ctx)
            sources['fn:path/' + ver] = call(fnpath)
        for src, res in sources.items():
            tag = '%s/%s' % (k, src.split('/')[0])
            if res[0] != 'ok':
                out.fail('C14/%s/raised:%s' % (tag, res[1] if res[0] == 'err' else res[1] + '@' + res[2]),
                         '%s of %r -> %r' % (src, n, res))
                continue
            path = res[1]
            if isinstance(path, list) and len(path) == 1:
                path = path[0]
            if not isinstance(path, str) or not path:
                out.fail('C14/%s/no-path' % tag, '%s of %r -> %r' % (src, n, path))
                continue
            if src == 'node.path':
                other = seen_paths.get(path)
                if other is not None and other is not n:
                    out.fail('C14/%s/duplicate-path/%s' % (k, sc), '%r and %r both have path %s' % (other, n, path))
                seen_paths[path] = n
            for ver in ('3.0', '3.1', '3.1d'):
                got = evaluate_path(path, root_node, ver, nsarg)
                out.dim('paths_evaluated', src.split('/')[0])
                if ver.endswith('d'):
                    out.dim('paths_evaluated_with_default_namespace', k)
                if got[0] != 'ok':
                    if k == 'pi' and nc == 'pi-target=function-or-keyword-name' and got[0] == 'err':
                        key = 'C14/pi/unparsable/pi-target=function-or-keyword-name'
                    else:
                        key = 'C14/%s/unparsable-or-error/%s/%s' % (tag, got[1] if got[0] == 'err' else got[1], nc)
                    out.fail(key, '%s = %r evaluated with %s -> %r' % (src, path, ver, got))
                    break
                sel = got[1]
                if len(sel) == 1 and sel[0] is n:
                    continue
                if not sel:
                    why = 'selects-nothing'
                elif len(sel) > 1:
                    why = 'selects-several'
                else:
                    why = 'selects-another-node'
                out.fail('C14/%s/%s/%s/%s' % (tag, why, sc, nc),
                         '%s = %r evaluated with %s selects %r instead of %r' % (src, path, ver, sel[:4], n))
                break
    # etree_iter_paths on the element tree
    if case['root'] == 'elem' and case['fragment'] is None:
        res = call(lambda: list(etree_iter_paths(twin.root_elem)))
        if res[0] != 'ok':
            out.fail('C14/etree_iter_paths/raised:%s' % res[1], repr(res))
        else:
            for elem, path in res[1]:
                out.dim('paths_evaluated', 'etree_iter_paths')
                kk = 'element' if not callable(elem.tag) else ('comment' if elem.tag.__name__ == 'Comment' else 'pi')
                for ver in ('3.0', '3.1'):
                    got = call(select, twin.root_elem, path, namespaces=NS_POOL, parser=PARSERS[ver],
                               item=twin.root_elem)
                    if got[0] != 'ok':
                        target = (getattr(elem, 'target', None) or (elem.text or '').split(' ')[0]) if kk == 'pi' else None
                        if target in FUNCTION_LIKE and got[0] == 'err':
                            key = 'C14/pi/unparsable/pi-target=function-or-keyword-name'
                        else:
                            key = 'C14/etree_iter_paths/%s/unparsable-or-error/%s' % (kk, got[1])
                        out.fail(key, '%r -> %r' % (path, got))
                        break
                    sel = got[1] if isinstance(got[1], list) else [got[1]]
                    if len(sel) == 1 and sel[0] is elem:
                        continue
                    why = 'selects-nothing' if not sel else ('selects-several' if len(sel) > 1 else 'selects-another-node')
                    out.fail('C14/etree_iter_paths/%s/%s' % (kk, why), '%r selects %r instead of %r' % (path, sel[:3], elem))
                    break
    out.nontrivial = len(nodes) >= 3 and interesting
    out.obs = '%s: %d nodes probed' % (cfg, len(nodes))
    return out


def g_case(r):
    lib = r.choice(['et', 'lxml'])
    spec = gen_xml.gen_doc(r, max_nodes=r.choice([5, 12, 30]), doc_misc=(lib == 'lxml'))
    return {'doc': spec, 'lib': lib, 'root': r.choice(['elem', 'tree', 'tree']),
            'fragment': r.choice([None, None, True, False])}


def run(h):
    r = h.rng
    for _ in range(h.n(2000)):
        h.case('tree', g_case(r))


def shrink(kind, case):
    def variants(e, prefix):
        for i in range(len(e['c'])):
            yield prefix + (i,)
            if e['c'][i]['k'] == 'e':
                yield from variants(e['c'][i], prefix + (i,))
    for pth in list(variants(case['doc']['root'], ())):
        c = copy.deepcopy(case)
        e = c['doc']['root']
        for k in pth[:-1]:
            e = e['c'][k]
        del e['c'][pth[-1]]
        cc = e['c']
        if any(cc[k]['k'] == 't' and cc[k + 1]['k'] == 't' for k in range(len(cc) - 1)):
            continue
        yield c
    for key in ('pre', 'post'):
        if case['doc'][key]:
            c = copy.deepcopy(case)
            c['doc'][key] = []
            yield c

    def strip_attrs(e):
        e['a'] = []
        for ch in e['c']:
            if ch['k'] == 'e':
                strip_attrs(ch)
    c = copy.deepcopy(case)
    strip_attrs(c['doc']['root'])
    if c != case:
        yield c


def floors(v):
    reasons = []
    for k in ('document', 'element', 'attribute', 'namespace', 'text', 'comment', 'pi'):
        if v.got('node_kind', k) < 50:
            reasons.append('fewer than 50 %s nodes probed' % k)
    if v.got('paths_evaluated', 'node.path') < 5000 or v.got('paths_evaluated', 'fn:path') < 5000:
        reasons.append('fewer than 5000 path strings evaluated back')
    if v.got('paths_evaluated', 'etree_iter_paths') < 200:
        reasons.append('fewer than 200 etree_iter_paths paths evaluated back')
    return reasons
