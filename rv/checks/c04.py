"""C04 - token trees realise the XPath grammar; `source` round-trips; results do not depend on the hash seed.

Four oracles (DESIGN.md section 4, C04):
  grammar  : a flat operator/operand sequence is grouped by the reference in rv/models/grammar.py (EBNF table only);
             parse(flat).tree must equal parse(fully parenthesised).tree, or the flat text must be rejected with
             XPST0003 when the EBNF does not derive it (chained non-associative operators, ...)
  layout   : the same terminals separated by random whitespace / nested, empty, multi-line comments (2.0+) or
             nothing (where lexically safe) give the same tree as the single-space rendering
  source   : t2 = parse(t.source) has t2.tree == t.tree and the same value on a fixed context (or the same error code)
  hashseed : tokenizer matches and trees of a fixed corpus are identical in child interpreters with different PYTHONHASHSEED
"""
import hashlib
import json
import os
import random
import subprocess
import sys
import xml.etree.ElementTree as ET

from ..core import Outcome
from ..engine import call, describe_outcome, PARSERS
from .. import bootstrap
from ..models import grammar as G

from elementpath import XPathContext
from elementpath import tdop as _tdop

PROPERTY = 'C04'
LEVEL = 'exploration'
RULE = ('grammar: for each version ALL ordered pairs of infix/postfix-type operators (plain operands, then with random '
        'unary / predicate / lookup / call / for-let-some-every-if / leading-slash decorations) plus random 3-4 operator '
        'sequences; the EBNF reference decides the parenthesisation or "syntax error"; non-trivial when the sequence has '
        '>= 2 operator-like items. layout: terminals of generated and hand-written expressions re-joined with random '
        'separators (none / whitespace / comment kinds); non-trivial when >= 1 separator is not a single space. '
        'source: flat and parenthesised renderings plus a hand-written corpus (literals, axes, kind tests, calls, maps, '
        'arrays, inline functions, types). hashseed: corpus of those expressions and layout variants run in child '
        'interpreters. Distinct by canonical JSON of the case.')
ASSUMPTIONS = [
    'the precedence/associativity table in rv/models/grammar.py (transcribed from the four W3C EBNFs) is the only '
    'trusted base of the grammar oracle: both renderings are parsed by the library itself',
    'Token.tree is the observable of grouping; it does not render occurrence indicators, map values or inline '
    'function bodies, so those are only covered through the value comparison of the source oracle',
    'when parse() fails with a non-syntax error raised by its static evaluation pass, the tree is taken from the '
    'underlying tdop.Parser.parse (same parser, no static evaluation) for BOTH sides of a comparison',
    'a fresh parser instance is used for every parse (parser-state leaks are the business of C03)',
    'separators are omitted only where a conservative may-join table says the two terminals stay delimited',
    'XPath 1.0: "$" QName is one token (no inner whitespace); comments are a 2.0+ feature',
]

SEEDS = [0, 1, 2, 3, 5, 8, 13, 21, 34, 55, 89, 144, 233, 377, 610, 987]
XML = '<r a="1" b="x"><a n="1">3<b>4</b></a><a n="2">5</a><b>t</b><c/><d>2</d></r>'
_ROOT = ET.XML(XML)
_VARS = {}
HASHSEED_INFO = {}


def vclass(v):
    return '1.0' if v == '1.0' else '2.0+'


# ------------------------------------------------------------------------------ engine access
def _variables(v):
    if v not in _VARS:
        d = {'x': 3, 'y': 's', 'z': [1, 2, 3], 'v': 2}
        if v >= '3.0':
            r = call(lambda: PARSERS['3.0']().parse('function($a) {$a}').evaluate(XPathContext(_ROOT)))
            if r[0] == 'ok':
                d['f'] = r[1]
        if v >= '3.1':
            r = call(lambda: PARSERS['3.1']().parse("map{'k': 1, 'j': [1, 2], 1: 'one'}").evaluate(XPathContext(_ROOT)))
            if r[0] == 'ok':
                d['m'] = r[1]
        _VARS[v] = d
    return dict(_VARS[v])


_MODE = {'compat': False}


def mkparser(v):
    """fresh parser; XPath 2.0+ optionally in XPath 1.0 compatibility mode (same grammar, different semantics)"""
    if _MODE['compat'] and v != '1.0':
        return PARSERS[v](compatibility_mode=True)
    return PARSERS[v]()


def eparse(v, text, raw=False):
    """-> ('ok', token, mode) | ('syntax',) | ('err', code) | ('exc', type, where)
    mode 'full' = parser.parse(); 'raw:<code>' = tdop-level parse after parse() failed in static evaluation"""
    p = mkparser(v)
    if not raw:
        r = call(p.parse, text)
        if r[0] == 'ok':
            return ('ok', r[1], 'full')
        if r[0] == 'exc':
            return r
        if r[1] == 'XPST0003':
            return ('syntax',)
        code = r[1]
        p = mkparser(v)
    else:
        code = 'forced'
    r = call(_tdop.Parser.parse, p, text)
    if r[0] == 'ok':
        return ('ok', r[1], 'raw:' + code)
    if r[0] == 'exc':
        return r
    if r[1] == 'XPST0003':
        return ('syntax',)
    return ('err', r[1])


def tree_of(tok):
    r = call(lambda: tok.tree)
    return r[1] if r[0] == 'ok' else '<tree failed: %s>' % (r[1],)


def pair_trees(v, ta, ra, tb, rb):
    """trees of two texts under the same parsing mode"""
    if ra[2] == rb[2] or (ra[2] != 'full' and rb[2] != 'full'):
        return tree_of(ra[1]), tree_of(rb[1])
    # one needed the raw mode: redo the other one raw as well
    if ra[2] == 'full':
        ra2 = eparse(v, ta, raw=True)
        if ra2[0] == 'ok':
            ra = ra2
    else:
        rb2 = eparse(v, tb, raw=True)
        if rb2[0] == 'ok':
            rb = rb2
    return tree_of(ra[1]), tree_of(rb[1])


def evaluate(v, tok):
    def run():
        ctx = XPathContext(root=_ROOT, variables=_variables(v))
        return tok.evaluate(ctx)
    return describe_outcome(call(run))


# ------------------------------------------------------------------------------ generators (grammar items)
STEP = ['a', 'b', 'c', 'a', 'b', '*', '@a', '@n', '@*', 'child::a', 'descendant::b', 'self::a', 'text()', 'node()', '..',
        'parent::r', 'attribute::n']
LIT = ['1', '2', '2.5', "'s'", '10']
PRIM = {
    '1.0': ['$x', '$y', '(a)', '(1)', 'count(a)', 'true()', 'string(b)', '(a | b)', 'number(d)'],
    '2.0': ['$x', '$y', '$z', '.', '(a)', '(1, 2)', '()', 'count(a)', 'true()', 'xs:integer(1)', 'string(b)', '(a, b)',
            'exists(c)'],
}
PRIM['3.0'] = PRIM['2.0'] + ['abs#1', '$f', "concat('p', 'q')"]
PRIM['3.1'] = PRIM['3.0'] + ['map{1: 2}', '[1, 2]', '$m', '$m', 'array{1, 2}']
PATH_LHS_PRIM = {'1.0': ['$x', '(a)', "id('i')"], '2.0': ['$x', '(a)', '.', "id('i')", '(a, b)']}
PATH_LHS_PRIM['3.0'] = PATH_LHS_PRIM['3.1'] = PATH_LHS_PRIM['2.0']
PATH_RHS_PRIM = {'2.0': ['(b)', 'name()', '.', 'string()'], '3.0': ['(b)', 'name()', '.', '$x', 'string()']}
PATH_RHS_PRIM['3.1'] = PATH_RHS_PRIM['3.0']
PRED = ['[1]', '[b]', '[. = 1]', '[last()]', '[@n]', '[2]']
LOOKUP = ['?k', '?j', '?1', '?*', '?(1)']
CALL = ['(1)', '()']
SEQ_TYPES = ['xs:integer', 'xs:string?', 'xs:integer*', 'item()+', 'node()', 'element()', 'empty-sequence()', 'item()',
             'xs:double+', 'node()*', 'xs:decimal', 'attribute()?']
SINGLE_TYPES = ['xs:integer', 'xs:string?', 'xs:double', 'xs:boolean', 'xs:decimal?']
ARROWS = [['abs', '()'], ['concat', "('a')"], ['string', '()'], ['count', '()'], ['$f', '()'], ['fn:string', '()'],
          # the ParenthesizedExpr alternative of ArrowFunctionSpecifier
          ['(string#1)', '()'], ['(concat#2)', "('b')"], ['($f)', '()'], ['Q{http://www.w3.org/2005/xpath-functions}string', '()']]
IN_EXPR = ['a', '1 to 3', '(1, 2)', '$x', 'a | b', '$z']


def g_head(r, v):
    e = r.choice(IN_EXPR)
    kinds = ['for', 'some', 'every', 'if']
    if v >= '3.0':
        kinds.append('let')
    k = r.choice(kinds)
    if k == 'for':
        return 'for $v in %s return' % e
    if k == 'let':
        return 'let $v := %s return' % e
    if k == 'if':
        return 'if (%s) then %s else' % (e, r.choice(IN_EXPR))
    return '%s $v in %s satisfies' % (k, e)


def is_slash(op):
    return op is not None and op[0] == 'b' and op[1] in ('/', '//')


def g_operand(r, v, prev, nxt, decor, first):
    """operand group: [h] [u]* [l] a p*"""
    items = []
    path_r = is_slash(prev)
    path_l = is_slash(nxt)
    literal = False
    if path_r:
        if v != '1.0' and r.random() < 0.12:
            atom = ['a', r.choice(PATH_RHS_PRIM[v]), 'prim']
        else:
            atom = ['a', r.choice(STEP), 'step']
    elif path_l:
        if r.random() < 0.3:
            atom = ['a', r.choice(PATH_LHS_PRIM[v]), 'prim']
        else:
            atom = ['a', r.choice(STEP), 'step']
    else:
        x = r.random()
        if x < 0.30:
            atom = ['a', r.choice(STEP), 'step']
        elif x < 0.55:
            atom = ['a', r.choice(LIT), 'prim']
            literal = True
        else:
            atom = ['a', r.choice(PRIM[v]), 'prim']
    if atom[1] == '.' and v == '1.0':
        atom[2] = 'step'
    if decor:
        if v != '1.0' and r.random() < (0.20 if first else 0.03):
            items.append(['h', g_head(r, v)])
        if r.random() < (0.04 if path_r else 0.25):
            for _ in range(1 if r.random() < 0.8 else 2):
                items.append(['u', '-' if v == '1.0' or r.random() < 0.7 else '+'])
        if atom[2] == 'step' and not path_r and atom[1] not in ('..',) and r.random() < 0.10:
            items.append(['l', r.choice(['/', '//'])])
    items.append(atom)
    if decor:
        x = r.random()
        if x < 0.22:
            items.append(['p', r.choice(PRED), 'pred'])
            if r.random() < 0.2:
                items.append(['p', r.choice(PRED), 'pred'])
        elif x < 0.34 and atom[2] == 'prim' and not literal and atom[1][-1] not in '0123456789.':
            if v >= '3.1' and r.random() < 0.6:
                items.append(['p', r.choice(LOOKUP), 'lookup'])
                if r.random() < 0.3:
                    items.append(['p', r.choice(PRED + LOOKUP[:3]), 'pred' if r.random() < 0 else 'lookup'])
                    if items[-1][1].startswith('['):
                        items[-1][2] = 'pred'
            elif v >= '3.0':
                items.append(['p', r.choice(CALL), 'call'])
                if r.random() < 0.3:
                    items.append(['p', r.choice(PRED), 'pred'])
    return items


def op_items(v):
    """all operator-like items used for the pair enumeration (type operators get their type later)"""
    ops = [['b', s] for s, _ in G.binary_symbols(v)]
    if v != '1.0':
        ops += [['t', 'instance of', None], ['t', 'treat as', None], ['t', 'castable as', None], ['t', 'cast as', None]]
    if v >= '3.1':
        ops.append(['w', None, None])
    return ops


def fill_op(r, op):
    if op[0] == 't':
        pool = SEQ_TYPES if op[1] in ('instance of', 'treat as') else SINGLE_TYPES
        return ['t', op[1], r.choice(pool)]
    if op[0] == 'w':
        a = r.choice(ARROWS)
        return ['w', a[0], a[1]]
    return list(op)


def build_seq(r, v, ops, decor):
    ops = [fill_op(r, o) for o in ops]
    items = g_operand(r, v, None, ops[0] if ops else None, decor, True)
    for j, op in enumerate(ops):
        items.append(op)
        if op[0] == 'b':
            nxt = ops[j + 1] if j + 1 < len(ops) else None
            items.extend(g_operand(r, v, op, nxt, decor, False))
    return items


def g_random_seq(r, v, nmin=2, nmax=4):
    pool = op_items(v)
    n = r.randint(nmin, nmax)
    return build_seq(r, v, [r.choice(pool) for _ in range(n)], True)


# ------------------------------------------------------------------------------ hand-written corpus (source / layout / hashseed)
CORPUS = [
    # (min version, expression)
    ('1.0', "1"), ('1.0', "1.5"), ('1.0', ".5"), ('1.0', "5."), ('1.0', "'a'"), ('1.0', '"a"'), ('1.0', "'it''s'"),
    ('1.0', '"say ""x"""'), ('1.0', "'a\"b'"), ('1.0', "'a\\b'"), ('1.0', "''"), ('1.0', "'a''b\"c'"),
    ('1.0', "001"), ('1.0', "1.50"), ('1.0', "12345678901234567890"), ('1.0', "0.000001"),
    ('1.0', "a"), ('1.0', "a/b"), ('1.0', "/r/a"), ('1.0', "//b"), ('1.0', "/"), ('1.0', "a//b"), ('1.0', "./a"),
    ('1.0', "../a"), ('1.0', "a/.."), ('1.0', "@a"), ('1.0', "a/@n"), ('1.0', "@*"), ('1.0', "*"), ('1.0', "a/*"),
    ('1.0', "child::a"), ('1.0', "descendant::b"), ('1.0', "descendant-or-self::node()"), ('1.0', "ancestor::r"),
    ('1.0', "ancestor-or-self::*"), ('1.0', "following-sibling::a"), ('1.0', "preceding-sibling::a"),
    ('1.0', "following::b"), ('1.0', "preceding::b"), ('1.0', "attribute::n"), ('1.0', "self::r"), ('1.0', "parent::*"),
    ('1.0', "namespace::*"), ('1.0', "a/child::b/text()"), ('1.0', "a[1]"), ('1.0', "a[@n = '2']"), ('1.0', "a[b][1]"),
    ('1.0', "a[last()]"), ('1.0', "(a | b)[2]"), ('1.0', "a[position() = 2]/text()"), ('1.0', "text()"), ('1.0', "node()"),
    ('1.0', "comment()"), ('1.0', "processing-instruction()"), ('1.0', "processing-instruction('x')"),
    ('1.0', "count(a)"), ('1.0', "count(//b)"), ('1.0', "concat('a', 'b', 'c')"), ('1.0', "string(a)"), ('1.0', "string()"),
    ('1.0', "substring('abcde', 2, 3)"), ('1.0', "not(a)"), ('1.0', "true()"), ('1.0', "sum(a)"), ('1.0', "name(a)"),
    ('1.0', "contains(b, 't')"), ('1.0', "translate('abc', 'a', 'x')"), ('1.0', "normalize-space(' a  b ')"),
    ('1.0', "floor(2.5)"), ('1.0', "round(2.5)"), ('1.0', "local-name(*)"), ('1.0', "a = 3"), ('1.0', "a != b"),
    ('1.0', "1 < 2"), ('1.0', "1 <= 2"), ('1.0', "2 > 1"), ('1.0', "2 >= 1"), ('1.0', "1 + 2"), ('1.0', "3 - 1"),
    ('1.0', "2 * 3"), ('1.0', "6 div 4"), ('1.0', "7 mod 3"), ('1.0', "-1"), ('1.0', "--1"), ('1.0', "- a"), ('1.0', "1 - -1"),
    ('1.0', "a or b"), ('1.0', "a and b"), ('1.0', "a | b"), ('1.0', "a | b | c"), ('1.0', "$x"), ('1.0', "$x + 1"),
    ('1.0', "$x * $v"), ('1.0', "(1)"), ('1.0', "((1))"), ('1.0', "(a)/b"), ('1.0', "(a)[1]"), ('1.0', "(1 + 2) * 3"),
    ('1.0', "1 + (2 * 3)"), ('1.0', "(1 - 2) - 3"), ('1.0', "1 - (2 - 3)"), ('1.0', "4 div (2 div 2)"), ('1.0', "-(1 + 2)"),
    ('1.0', "(a or b) and c"), ('1.0', "a or (b and c)"), ('1.0', "(a | b)/text()"), ('1.0', "div"), ('1.0', "mod/and"),
    ('1.0', "or or or"), ('1.0', "a div div"), ('1.0', "* * *"), ('1.0', "a[1 + 1]"), ('1.0', "a[(1)]"),
    ('1.0', "string-length('abc') + 1"), ('1.0', "a/b | a/@n"), ('1.0', "lang('en')"),
    ('1.0', "div-b"), ('1.0', "a/or-c"), ('1.0', "mod.x | and-more"), ('1.0', "a[or-c]/div-b"), ('2.0', "if-x"), ('2.0', "for.y | some-z"),
    ('2.0', "a/instance-of | to-x"), ('2.0', "union-a union cast-b"), ('3.0', "let-x ! return-y"), ('2.0', "eq-a eq is-b"),
    ('2.0', "()"), ('2.0', "(1, 2)"), ('2.0', "(1, (2, 3))"), ('2.0', "((1, 2), 3)"), ('2.0', "1, 2"), ('2.0', "1e3"),
    ('2.0', "1.5E-3"), ('2.0', "1E0"), ('2.0', "1.0e10"), ('2.0', "xs:double('NaN')"), ('2.0', "xs:double('INF')"),
    ('2.0', "-0e0"), ('2.0', "1 to 3"), ('2.0', "(1 to 3)[2]"), ('2.0', "1 eq 1"), ('2.0', "1 ne 2"), ('2.0', "1 lt 2"),
    ('2.0', "1 le 2"), ('2.0', "2 gt 1"), ('2.0', "2 ge 1"), ('2.0', "a is a"), ('2.0', "a[1] << a[2]"), ('2.0', "a[2] >> a[1]"),
    ('2.0', "7 idiv 2"), ('2.0', "+1"), ('2.0', "+-1"), ('2.0', "-+1"), ('2.0', "a union b"), ('2.0', "* intersect a"),
    ('2.0', "* except a"), ('2.0', "(a union b) intersect c"), ('2.0', "a union (b intersect c)"),
    ('2.0', "1 instance of xs:integer"), ('2.0', "1 instance of xs:integer?"), ('2.0', "(1, 2) instance of xs:integer+"),
    ('2.0', "(1, 2) instance of xs:integer*"), ('2.0', "() instance of empty-sequence()"), ('2.0', "a instance of element()"),
    ('2.0', "a instance of element()*"), ('2.0', "a instance of element(a)"), ('2.0', "a instance of element(*, xs:anyType)"),
    ('2.0', "@a instance of attribute()"), ('2.0', "@a instance of attribute(a)"), ('2.0', ". instance of node()"),
    ('2.0', "1 instance of item()"), ('2.0', "a/text() instance of text()?"), ('2.0', ". instance of document-node()"),
    ('2.0', ". instance of document-node(element(r))"), ('2.0', "1 treat as xs:integer"), ('2.0', "(1, 2) treat as xs:integer+"),
    ('2.0', "'1' cast as xs:integer"), ('2.0', "'1' cast as xs:integer?"), ('2.0', "() cast as xs:integer?"),
    ('2.0', "'x' castable as xs:integer"), ('2.0', "'1' castable as xs:integer?"), ('2.0', "xs:integer('1')"),
    ('2.0', "xs:date('2000-01-01')"), ('2.0', "xs:string(1)"), ('2.0', "xs:QName('a')"), ('2.0', "fn:count(a)"),
    ('2.0', "fn:string-join(('a', 'b'), '-')"), ('2.0', "if (a) then 1 else 2"), ('2.0', "if (a) then (1, 2) else ()"),
    ('2.0', "if (a) then if (b) then 1 else 2 else 3"), ('2.0', "for $i in (1, 2) return $i + 1"),
    ('2.0', "for $i in (1, 2), $j in (3, 4) return $i * $j"), ('2.0', "for $i in a return $i/@n"),
    ('2.0', "some $i in (1, 2) satisfies $i = 2"), ('2.0', "every $i in (1, 2) satisfies $i > 0"),
    ('2.0', "some $i in (1, 2), $j in (2, 3) satisfies $i = $j"), ('2.0', "(for $i in (1, 2) return $i)[2]"),
    ('2.0', "(if (a) then 1 else 2) + 1"), ('2.0', "1 + (if (a) then 1 else 2)"), ('2.0', "(1, 2)[. > 1]"),
    ('2.0', "a/(b | @n)"), ('2.0', "a/(b, @n)"), ('2.0', "a/string()"), ('2.0', "a/string-length(.)"), ('2.0', "(a, b)/name()"),
    ('2.0', "sum((1, 2, 3))"), ('2.0', "sum(for $i in a return number($i))"), ('2.0', "max((1, 2))"), ('2.0', "distinct-values((1, 1, 2))"),
    ('2.0', "reverse(1 to 3)"), ('2.0', "subsequence((1, 2, 3), 2)"), ('2.0', "index-of((1, 2), 2)"), ('2.0', "upper-case('a')"),
    ('2.0', "matches('abc', 'b')"), ('2.0', "replace('abc', 'b', 'x')"), ('2.0', "tokenize('a b', ' ')"), ('2.0', "string-join(a/text(), ',')"),
    ('2.0', "exists(a)"), ('2.0', "empty(a)"), ('2.0', "deep-equal(a, a)"), ('2.0', "number('1')"), ('2.0', "abs(-1)"),
    ('2.0', "*:a"), ('2.0', "xs:integer(1) + 1"), ('2.0', "element()"), ('2.0', "attribute()"), ('2.0', "attribute::attribute()"),
    ('2.0', "child::element(a)"), ('2.0', "a/element()"), ('2.0', "a/attribute(n)"), ('2.0', "$z[2]"), ('2.0', "$z = 2"),
    ('2.0', "(1, 2) = (2, 3)"), ('2.0', "1 to 2, 3"), ('2.0', "(1, 2), (3, 4)"), ('2.0', "- (1, 2)[1]"), ('2.0', "(1)[1][1]"),
    ('2.0', "1 = 1 and 2 = 2 or 3 = 4"), ('2.0', "1 + 2 * 3 - 4 div 5"), ('2.0', "2 * 3 idiv 2 mod 5"), ('2.0', "1 to 2 + 3"),
    ('2.0', "-1 to 1"), ('2.0', "a | b intersect c"), ('2.0', "a intersect b | c"), ('2.0', "a except b union c"),
    ('2.0', "1 + 1 instance of xs:integer"), ('2.0', "'1' cast as xs:integer + 1"), ('2.0', "-'1' cast as xs:integer"),
    ('2.0', "1 treat as xs:integer instance of xs:integer"), ('2.0', "'1' cast as xs:integer castable as xs:string"),
    ('2.0', "1 castable as xs:integer treat as xs:boolean instance of xs:boolean"),
    ('2.0', "if (a) then 1 else 2 + 1"), ('2.0', "for $i in 1 return $i, 2"), ('2.0', "some $i in 1 satisfies $i or a"),
    ('2.0', "for $i in 1 return for $j in 2 return $i + $j"), ('2.0', "if (1) then 2 else for $i in 3 return $i"),
    ('3.0', "'a' || 'b'"), ('3.0', "'a' || 'b' || 'c'"), ('3.0', "1 || 2 + 3"), ('3.0', "a ! b"), ('3.0', "a ! b ! text()"),
    ('3.0', "(1, 2) ! (. + 1)"), ('3.0', "a/b ! string()"), ('3.0', "a ! b/text()"), ('3.0', "- a ! number()"),
    ('3.0', "let $i := 1 return $i + 1"), ('3.0', "let $i := 1, $j := 2 return $i + $j"), ('3.0', "let $i := (1, 2) return $i[2]"),
    ('3.0', "function($a) {$a + 1}"), ('3.0', "function($a) {$a + 1}(2)"), ('3.0', "function($a as xs:integer) as xs:integer {$a}(2)"),
    ('3.0', "function() {1}()"), ('3.0', "function($a, $b) {$a * $b}(2, 3)"), ('3.0', "abs#1"), ('3.0', "abs#1(-2)"), ('3.0', "fn:abs#1"),
    ('3.0', "concat#3('a', 'b', 'c')"), ('3.0', "abs(?)"), ('3.0', "abs(?)(-1)"), ('3.0', "concat('a', ?)('b')"), ('3.0', "$f(1)"),
    ('3.0', "$f(1)[1]"), ('3.0', "for-each((1, 2), function($a) {$a * 2})"), ('3.0', "filter((1, 2, 3), function($a) {$a > 1})"),
    ('3.0', "fold-left((1, 2, 3), 0, function($a, $b) {$a + $b})"), ('3.0', "for-each((1, 2), abs#1)"), ('3.0', "Q{http://www.w3.org/2005/xpath-functions}abs(-1)"),
    ('3.0', "Q{}a"), ('3.0', "math:pi()"), ('3.0', "math:sqrt(4)"), ('3.0', "$f instance of function(*)"),
    ('3.0', "$f instance of function(item()*) as item()*"), ('3.0', "abs#1 instance of function(xs:integer) as xs:integer"),
    ('3.0', "1 instance of (xs:integer)"), ('3.0', "namespace-node()"), ('3.0', "a instance of namespace-node()"),
    ('3.0', "string-join((1 to 3) ! string(), '-')"), ('3.0', "head((1, 2))"), ('3.0', "tail((1, 2))"), ('3.0', "'a' || 1 to 2"),
    ('3.0', "1 = 1 || 'x'"), ('3.0', "let $i := 1 return $i, 2"), ('3.0', "let $g := function($a) {$a} return $g(1)"),
    ('3.0', "(let $i := 1 return $i) + 1"), ('3.0', "a ! (b, c)"), ('3.0', "/r ! a"), ('3.0', "//b ! .."),
    ('3.1', "map{}"), ('3.1', "map{1: 2}"), ('3.1', "map{'a': 1, 'b': (1, 2)}"), ('3.1', "map{'a': map{'b': 1}}"),
    ('3.1', "map{1: 2}(1)"), ('3.1', "map{1: 2}?1"), ('3.1', "map{'a': 1}?a"), ('3.1', "map{'a': 1}?*"), ('3.1', "$m?k"), ('3.1', "$m?j?1"),
    ('3.1', "$m?('k')"), ('3.1', "$m?(1)"), ('3.1', "$m?1"), ('3.1', "$m('k')"), ('3.1', "[1, 2]"), ('3.1', "[]"), ('3.1', "[1, [2, 3]]"),
    ('3.1', "[(1, 2), 3]"), ('3.1', "array{1, 2}"), ('3.1', "array{}"), ('3.1', "array{(1, 2)}"), ('3.1', "[1, 2]?1"), ('3.1', "[1, 2](2)"),
    ('3.1', "[1, 2]?*"), ('3.1', "([1, 2], [3])?1"), ('3.1', "$m ! ?k"), ('3.1', "(map{'a': 1}, map{'a': 2}) ! ?a"), ('3.1', "$m?j?*"),
    ('3.1', "-1 => abs()"), ('3.1', "'a' => concat('b')"), ('3.1', "'a' => concat('b') => upper-case()"), ('3.1', "(1, 2) => count()"),
    ('3.1', "1 => $f()"), ('3.1', "'a' => upper-case() || 'b'"), ('3.1', "2 => (function($a) {$a + 1})()"), ('3.1', "a => count() + 1"),
    ('3.1', "'1' cast as xs:integer => abs()"), ('3.1', "- 1 => abs()"), ('3.1', "map:size($m)"), ('3.1', "map:keys(map{1: 2})"),
    ('3.1', "map:get($m, 'k')"), ('3.1', "map:merge((map{1: 2}, map{3: 4}))"), ('3.1', "array:size([1, 2])"), ('3.1', "array:get([1, 2], 1)"),
    ('3.1', "array:join(([1], [2]))"), ('3.1', "$m instance of map(*)"), ('3.1', "$m instance of map(xs:string, item()*)"),
    ('3.1', "[1] instance of array(*)"), ('3.1', "[1] instance of array(xs:integer)"), ('3.1', "$m?k + 1"), ('3.1', "- $m?k"),
    ('3.1', "$m?k[1]"), ('3.1', "$m?j(1)"), ('3.1', "a[?k]"), ('3.1', "map{'a': 1, 'b': 2}?a + map{'a': 1}?a"),
    ('3.1', "map{1: 'x'}?1 || 'y'"), ('3.1', "let $a := [1, 2] return $a?2"), ('3.1', "for $k in map:keys($m) return $m($k)"),
    ('3.1', "parse-json('[1, 2]')?1"), ('3.1', "sort((3, 1, 2))"), ('3.1', "string-join(('a', 'b'))"), ('3.1', "map{'k': 1}?k => abs()"),
    ('3.1', "tokenize('a b')"), ('3.1', "map{ 'a' : 1 }"), ('3.1', "array { 1 , 2 }"),
]


def corpus_for(v):
    return [e for mv, e in CORPUS if mv <= v]


# ------------------------------------------------------------------------------ grammar oracle
MERGE = {'equality': 'comparison', 'relational': 'comparison', 'instance': 'typeop', 'treat': 'typeop',
         'castable': 'typeop', 'cast': 'typeop'}


def merged_reason(reason):
    if ':' in reason:
        a, b = reason.split(':', 1)
        return a + ':' + MERGE.get(b, b)
    return reason


def grammar_verdict(v, items):
    """-> dict(cat=None|'group'|'accepts'|'rejects'|..., ...)"""
    res = {'cat': None, 'flat': G.flat(items)}
    try:
        ast = G.parse(v, items)
    except G.SyntaxErr as e:
        ast = None
        res['reason'] = e.reason
    rf = eparse(v, res['flat'])
    res['rf'] = rf
    if ast is None:
        res['expected'] = 'XPST0003 (%s)' % res['reason']
        if res['reason'].startswith('undecided'):
            res['agree'] = 'undecided:model'
        elif rf[0] == 'syntax':
            res['agree'] = 'both-syntax-error'
        elif rf[0] == 'ok':
            res['cat'] = 'accepts'
            res['sub'] = merged_reason(res['reason'])
            res['got'] = tree_of(rf[1])
        else:
            res['agree'] = 'undecided:' + str(rf[1])
        return res
    res['ast'] = ast
    ptext = G.paren(v, ast)
    res['paren'] = ptext
    res['expected'] = ptext
    rp = eparse(v, ptext)
    res['rp'] = rp
    if rp[0] != 'ok':
        if rf[0] == 'ok':
            res['cat'] = 'paren-rejected'
            res['got'] = 'flat parsed, parenthesised form: %r' % (rp[:3],)
        elif rf[0] == 'syntax' or rp[0] == 'syntax' or rf[0] == 'exc' or rp[0] == 'exc':
            res['cat'] = 'rejects'
            res['got'] = 'flat: %r, parenthesised: %r' % (rf[:3], rp[:3])
        else:
            res['agree'] = 'undecided:' + str(rf[1])     # e.g. the same static error code from both
        return res
    if rf[0] != 'ok':
        if rf[0] in ('syntax', 'exc'):
            res['cat'] = 'rejects'
            res['got'] = 'flat: %r (parenthesised form parses)' % (rf[:3],)
        else:
            res['agree'] = 'undecided:' + str(rf[1])
        return res
    t1, t2 = pair_trees(v, res['flat'], rf, ptext, rp)
    if t1 != t2:
        res['cat'] = 'group'
        res['got'] = t1
        res['want_tree'] = t2
    else:
        res['agree'] = 'same-tree'
        res['mode'] = rf[2] if rf[2] == rp[2] else 'raw'
    return res


def groups_of(items):
    """split into operand groups and operator items: list of ('g', [items]) / ('o', item)"""
    out = []
    cur = None
    for t in items:
        if t[0] in ('b', 't', 'w'):
            cur = None
            out.append(('o', t))
        else:
            if cur is None:
                cur = []
                out.append(('g', cur))
            cur.append(t)
    return out


def reductions(items):
    """smaller sequences: drop one decoration, one postfix-type operator, or one operator with an adjacent operand"""
    n = len(items)
    for i, t in enumerate(items):
        if t[0] in ('u', 'p', 'h', 'l', 't', 'w'):
            yield items[:i] + items[i + 1:]
    gs = groups_of(items)
    for k, (kind, x) in enumerate(gs):
        if kind == 'o' and x[0] == 'b':
            # remove operator + following operand group
            if k + 1 < len(gs) and gs[k + 1][0] == 'g':
                rest = gs[:k] + gs[k + 2:]
                yield [t for kk, y in rest for t in (y if kk == 'g' else [y])]
            # remove preceding operand group (with its postfix-type operators) + operator
            j = k - 1
            while j >= 0 and gs[j][0] == 'o' and gs[j][1][0] in ('t', 'w'):
                j -= 1
            if j >= 0 and gs[j][0] == 'g' and (j == 0 or gs[j - 1][0] == 'o'):
                rest = gs[:j] + gs[k + 1:]
                yield [t for kk, y in rest for t in (y if kk == 'g' else [y])]
    # simplify atoms
    for i, t in enumerate(items):
        if t[0] == 'a' and t[1] not in ('a', '1') and not (i + 1 < len(items) and items[i + 1][0] == 'p') \
                and not (i > 0 and items[i - 1][0] == 'l') and not t[1].endswith('()'):
            yield items[:i] + [['a', 'a' if t[2] == 'step' else '1', t[2]]] + items[i + 1:]
    del n


def well_formed(items):
    if not items or not any(t[0] == 'a' for t in items):
        return False
    return True


def minimise(v, items, cat, sub):
    cur = items
    budget = 80
    improved = True
    while improved and budget > 0:
        improved = False
        for cand in reductions(cur):
            budget -= 1
            if budget <= 0:
                break
            if not well_formed(cand):
                continue
            r = grammar_verdict(v, cand)
            if r['cat'] == cat and r.get('sub') == sub:
                cur = cand
                improved = True
                break
    return cur


def mechanism(items):
    """recognisable mechanisms that would otherwise be spread over many level signatures"""
    for t, n in zip(items, items[1:]):
        if n[0] == 'b' and n[1] in ('*', '+'):
            if t[0] == 't' and t[1] in ('instance of', 'treat as') and t[2].rstrip('*+?').endswith(')') \
                    and not t[2].startswith('empty-sequence'):
                return 'kind-test-type-then-star-or-plus'
            if t[0] in ('a', 'p') and t[1].endswith('()') and t[2] == 'step':
                return 'kind-test-then-star-or-plus'
    return None


def level_sig(v, items, merge):
    names = []
    for t in items:
        lv = G.level_of(v, t)
        if lv is not None:
            names.append(MERGE.get(lv, lv) if merge else lv)
    return '~'.join(names[:4]) or 'none'


def check_grammar(case, out):
    v, items = case['v'], case['items']
    res = grammar_verdict(v, items)
    nops = sum(1 for t in items if t[0] != 'a')
    out.nontrivial = nops >= 2
    out.dim('grammar_cases:' + v, 'n')
    out.dim('grammar_expected', 'tree' if 'ast' in res else 'syntax-error:' + merged_reason(res.get('reason', '?')))
    ops = [t for t in items if t[0] in ('b', 't', 'w')]
    for t in ops:
        out.dim('operator:' + v, t[1] if t[0] != 'w' else '=>')
    for a, b in zip(ops, ops[1:]):
        out.dim('level_pair:' + v, '%s~%s' % (G.level_of(v, a), G.level_of(v, b)))
    for t in items:
        if t[0] in ('u', 'p', 'h', 'l'):
            out.dim('decoration', {'u': 'unary', 'h': 'exprsingle-head', 'l': 'leading-slash'}.get(t[0]) or 'postfix-' + t[2])
    if 'ast' in res:
        out.dim('grammar_shape', G.shape(res['ast'])[:60])
    out.obs = '%s -> %s' % (res['flat'], res.get('agree') or res['cat'])
    if res['cat'] is None:
        out.dim('grammar_agree', res['agree'].split(':')[0])
        if res.get('mode') and res['mode'] != 'full':
            out.dim('static_error_bypassed', res['mode'])
    else:
        small = minimise(v, items, res['cat'], res.get('sub'))
        sres = grammar_verdict(v, small) if small is not items else res
        mech = mechanism(small)
        if mech is not None:
            key = 'C04/grammar/%s/%s' % (vclass(v), mech)
        elif res['cat'] == 'accepts':
            key = 'C04/grammar/%s/accepts/%s' % (vclass(v), res['sub'])
        elif res['cat'] == 'group':
            key = 'C04/grammar/%s/group/%s' % (vclass(v), level_sig(v, small, False))
        else:
            key = 'C04/grammar/%s/%s/%s' % (vclass(v), res['cat'], level_sig(v, small, True))
        out.fail(key, {'version': v, 'expression': res['flat'], 'expected': res['expected'], 'got': res.get('got'),
                       'expected_tree': res.get('want_tree'),
                       'minimal': {'expression': sres['flat'], 'expected': sres['expected'], 'got': sres.get('got'),
                                   'expected_tree': sres.get('want_tree')}})
    # the source oracle on what was parsed (not on a tree that is already known to be wrong)
    for name in ('rf', 'rp') if res['cat'] is None else ():
        r = res.get(name)
        if r is not None and r[0] == 'ok' and r[2] == 'full':
            check_source_token(v, res['flat'] if name == 'rf' else res['paren'], r[1], out, values=(name == 'rf'))


# ------------------------------------------------------------------------------ source oracle
TYPE_PARENTS = ('instance', 'treat', 'cast', 'castable')


def leaf_equal(a, b):
    x, y = a.value, b.value
    if type(x) is not type(y):
        return False
    if x != x and y != y:
        return True
    return x == y


def first_diff(a, b, chain=()):
    """first structural difference (pre-order) -> (symbols of the ancestors, symbol, is_leaf) or None"""
    if a.symbol != b.symbol or len(a) != len(b):
        return (chain, a.symbol, len(a) == 0)
    if len(a) == 0:
        r = call(leaf_equal, a, b)
        if r[0] != 'ok' or not r[1]:
            return (chain, a.symbol, True)
        return None
    if len(chain) > 80:
        return None
    for x, y in zip(a, b):
        d = first_diff(x, y, chain + (a.symbol,))
        if d is not None:
            return d
    return None


def post_order(tok, in_type=False, depth=0):
    if depth > 60:
        return
    for i, ch in enumerate(tok):
        skip = in_type or (tok.symbol in TYPE_PARENTS and i >= 1) or tok.symbol == 'function' or \
            (tok.symbol == '=>' and i >= 1)
        for x in post_order(ch, skip, depth + 1):
            yield x
    yield tok, in_type


LEAVES = ('(integer)', '(decimal)', '(float)', '(string)', '(name)')


def roundtrip_state(v, tok, src):
    """-> ('same', token2) | ('unparsable', result) | ('tree', (parent symbol, symbol), token2)"""
    r2 = eparse(v, src)
    if r2[0] != 'ok':
        return ('unparsable', r2)
    d = first_diff(tok, r2[1])
    if d is None and tree_of(tok) != tree_of(r2[1]):
        d = ((), '?', True)
    if d is not None:
        return ('tree', d, r2[1])
    return ('same', r2[1], r2[2])


def where_name(tok, d=None):
    """mechanism name of the place where a round trip breaks"""
    if d is not None:
        chain, sym, leaf = d
        if '=>' in chain:
            return '=>' if tok.symbol != '=>' or len(tok) < 2 else where_name(tok)
        for i, c in enumerate(chain):
            if c in TYPE_PARENTS:
                return sym_name(chain[i + 1] if i + 1 < len(chain) else sym)
        if leaf or not chain:
            return sym_name(sym)
        return sym_name(chain[-1])
    if tok.symbol in TYPE_PARENTS and len(tok) > 1:
        return sym_name(tok[1].symbol)
    if tok.symbol == '=>' and len(tok) > 1:
        # the form of the function specifier decides which branch of Token.source writes it
        spec = tok[1].symbol
        kind = {'(': 'parenthesized', '$': 'variable', ':': 'prefixed-name', 'Q{': 'braced-name'}.get(spec, 'name')
        return '=>/specifier:' + kind
    return sym_name(tok.symbol)


def blame(v, tok):
    """smallest sub-expression (post-order) whose own source does not round-trip -> (token, state, source)"""
    n = 0
    for sub, in_type in post_order(tok):
        if in_type or sub is tok:
            continue
        n += 1
        if n > 60:
            break
        s = call(lambda: sub.source)
        if s[0] != 'ok' or not isinstance(s[1], str):
            return sub, ('raises',), None
        st = roundtrip_state(v, sub, s[1])
        if st[0] != 'same':
            return sub, st, s[1]
    return None


def sym_name(s):
    return s if len(s) < 24 else s[:24]


def check_source_token(v, text, tok, out, values=True):
    out.dim('source_roundtrips', v)
    s = call(lambda: tok.source)
    if s[0] != 'ok' or not isinstance(s[1], str):
        out.fail('C04/source/raises/%s' % sym_name(tok.symbol), {'version': v, 'expression': text, 'got': s[1:]})
        return
    src = s[1]
    out.dim('root_symbol', sym_name(tok.symbol))
    st = roundtrip_state(v, tok, src)
    if st[0] == 'same' and st[2] != 'full':
        st = ('static-error', st[2], st[1])
    if st[0] != 'same':
        b = blame(v, tok)
        sub_src = None
        what, where = st[0], None
        if b is not None:
            what = b[1][0]
            where = where_name(b[0], b[1][1] if what == 'tree' else None)
            sub_src = b[2]
        else:
            where = where_name(tok, st[1] if what == 'tree' else None)
        detail = {'version': v, 'expression': text, 'source': src, 'smallest_failing_subexpression_source': sub_src}
        if st[0] == 'tree':
            detail['tree'] = tree_of(tok)
            detail['tree_of_source'] = tree_of(st[2])
            detail['first_difference'] = ['/'.join(st[1][0]), st[1][1]]
        else:
            detail['reparse'] = [str(x) for x in st[1][:3]] if isinstance(st[1], tuple) else str(st[1])
        out.fail('C04/source/%s/%s' % (what, where), detail)
        return
    if values:
        v1 = evaluate(v, tok)
        v2 = evaluate(v, st[1])
        out.dim('source_value_comparisons', v1[0] if v1[0] != 'err' else 'err')
        if v1 != v2:
            b = None
            for sub, in_type in post_order(tok):
                if in_type or len(sub) == 0:
                    continue
                ss = call(lambda: sub.source)
                if ss[0] != 'ok':
                    continue
                r3 = eparse(v, ss[1])
                if r3[0] == 'ok' and evaluate(v, sub) != evaluate(v, r3[1]):
                    b = sub
                    break
            out.fail('C04/source/value/%s' % where_name(b if b is not None else tok),
                     {'version': v, 'expression': text, 'source': src, 'value': v1, 'value_of_source': v2})


KEYWORDS = ('instance', 'of', 'treat', 'as', 'cast', 'castable', 'for', 'let', 'some', 'every', 'if', 'then', 'else', 'in',
            'return', 'satisfies', 'to', 'union', 'intersect', 'except', 'map', 'array', 'function')


def signature(v, text):
    """operators / keywords / called names of an expression, in order, without operands"""
    lx = G.lex(v, text)
    if not lx:
        return 'unlexed'
    sig = []
    for i, (k, t) in enumerate(lx):
        if k == 'sym' or (k == 'name' and (t in KEYWORDS or (i + 1 < len(lx) and lx[i + 1][1] == '('))):
            if t not in sig:
                sig.append(t)
        elif k == 'name' and ('-' in t or '.' in t) and 'hyphenated-name' not in sig:
            sig.append('hyphenated-name')
    return '~'.join(sig[:5]) or 'operands-only'


def check_source(case, out):
    v, e = case['v'], case['e']
    r = eparse(v, e)
    out.obs = '%s -> %s' % (e, r[0])
    if r[0] != 'ok' or r[2] != 'full':
        out.nontrivial = False
        out.dim('source_unparsed_input', r[0] if r[0] != 'ok' else r[2])
        if r[0] in ('syntax', 'exc') and case.get('valid'):
            # every expression of the hand-written corpus is a valid instance of the grammar of its version
            out.fail('C04/corpus-rejected/%s/%s' % (vclass(v), signature(v, e)),
                     {'version': v, 'expression': e, 'expected': 'parses (valid XPath %s)' % v, 'got': [str(x) for x in r[:3]]})
        return
    check_source_token(v, e, r[1], out)
    s = call(lambda: r[1].source)
    if s[0] == 'ok':
        out.obs = '%s -> source %s' % (e, s[1])


# ------------------------------------------------------------------------------ layout oracle
WS = [' ', '  ', '\t', '\n', '\r\n', ' \n ', '\t ']
C_PLAIN = ['(: c :)', '(: a + b :)', '(:x:)', '(: if ( or 1 div :)', '(: $v := 2 , ] ) :)', '(:: :)', '(: : :)', '(: (a) :)']
C_KINDS = ['c-plain', 'c-empty', 'c-nested', 'c-newline', 'c-quote', 'c-multi']


def g_sep(r, v, a, b, allow_quote):
    x = r.random()
    if x < 0.34:
        return ' '
    if x < 0.50:
        return '' if G.may_join(a, b) else ' '
    if x < 0.68 or v == '1.0':
        return r.choice(WS)
    k = r.choice(C_KINDS)
    if k == 'c-quote' and not allow_quote:
        k = 'c-plain'
    if k == 'c-plain':
        c = r.choice(C_PLAIN)
    elif k == 'c-empty':
        c = '(::)'
    elif k == 'c-nested':
        c = r.choice(['(: a (: b :) c :)', '(:(::):)', '(: (: (: x :) :) y :)', '(: 1 (: 2 :) (: 3 :) :)'])
    elif k == 'c-newline':
        c = r.choice(['(: a\nb :)', '(:\n:)', '(: x \r\n y :)'])
    elif k == 'c-quote':
        c = r.choice(["(: it's :)", '(: say "x :)', "(: ' :)"])
    else:
        c = r.choice(['(: a :)(: b :)', '(: a :) (: b :)', '(::)(::)', '(: a :) (: b :) (: c :)'])
    pad = r.random()
    if pad < 0.3:
        return c
    if pad < 0.55:
        return ' ' + c
    if pad < 0.8:
        return c + ' '
    return ' ' + c + ' '


def sep_kind(s):
    if s == ' ':
        return 'space'
    if s == '':
        return 'none'
    if '(:' not in s:
        return 'ws'
    if "'" in s or '"' in s:
        return 'c-quote'
    if '\n' in s:
        return 'c-newline'
    if s.count(':)') >= 2 and s.count('(:') == s.count(':)') and _top_level_comments(s) >= 2:
        return 'c-multi'
    if s.count('(:') >= 2:
        return 'c-nested'
    if s.strip() == '(::)':
        return 'c-empty'
    return 'c-plain'


def _top_level_comments(s):
    depth = n = i = 0
    while i < len(s) - 1:
        two = s[i:i + 2]
        if two == '(:':
            if depth == 0:
                n += 1
            depth += 1
            i += 2
        elif two == ':)':
            depth -= 1
            i += 2
        else:
            i += 1
    return n


def tok_class(kind, text):
    if kind == 'sym':
        return text
    return kind


def adjacency(ka, a, kb, b, skind):
    if skind == 'c-quote':
        return 'any'
    if skind == 'none':
        return '%s~%s' % (tok_class(ka, a), tok_class(kb, b))
    if a == ':' or b == ':':
        return 'colon'
    if a == '?' or b == '?':
        return 'question-mark'
    if ka == 'name' and b in ('(', '::', '{', '#'):
        return 'name~' + b
    if a == '$' or a == '::' or a == '@':
        return a + '~name'
    return 'other'


def join(toks, seps):
    out = []
    for i, t in enumerate(toks):
        out.append(t)
        if i < len(seps):
            out.append(seps[i])
    return ''.join(out)


def g_layout(r, v, text):
    lx = G.lex(v, text)
    if not lx or len(lx) < 2:
        return None
    toks = [t for _, t in lx]
    seps = []
    quote_used = False
    has_str = any(k == 'str' for k, _ in lx)
    for i in range(len(toks) - 1):
        s = g_sep(r, v, toks[i], toks[i + 1], allow_quote=not quote_used)
        if sep_kind(s) == 'c-quote':
            quote_used = True
        seps.append(s)
    del has_str
    return {'v': v, 'toks': toks, 'seps': seps, 'text': text}


def layout_compare(v, toks, seps):
    """-> (status, detail)  status: 'same' | 'diff' | 'baseline-unparsable'"""
    base = ' '.join(toks)
    rb = eparse(v, base)
    if rb[0] != 'ok':
        return 'baseline-unparsable', {'baseline': base, 'result': [str(x) for x in rb[:3]]}
    var = join(toks, seps)
    rv_ = eparse(v, var)
    if rv_[0] != 'ok':
        return 'diff', {'baseline': base, 'variant': var, 'expected': tree_of(rb[1]), 'got': [str(x) for x in rv_[:3]]}
    t1, t2 = pair_trees(v, base, rb, var, rv_)
    if t1 != t2:
        return 'diff', {'baseline': base, 'variant': var, 'expected': t1, 'got': t2}
    return 'same', None


def check_layout(case, out):
    v, toks, seps = case['v'], case['toks'], case['seps']
    kinds = [sep_kind(s) for s in seps]
    out.nontrivial = any(k != 'space' for k in kinds)
    status, detail = layout_compare(v, toks, seps)
    out.obs = '%r -> %s' % (join(toks, seps)[:120], status)
    out.dim('layout_comparisons:' + v, status)
    if status == 'baseline-unparsable':
        out.nontrivial = False
        if case.get('text'):
            ro = eparse(v, case['text'])
            if ro[0] == 'ok':
                # the compact original parses but the same terminals separated by single spaces do not
                detail['original'] = case['text']
                detail['version'] = v
                detail['expected'] = tree_of(ro[1])
                out.fail('C04/layout/%s/single-spaced' % vclass(v), detail)
        return
    if case.get('text'):
        ro = eparse(v, case['text'])
        rb = eparse(v, ' '.join(toks))
        if ro[0] == 'ok' and rb[0] == 'ok':
            out.dim('layout_original_vs_single_spaced', v)
            t1, t2 = pair_trees(v, case['text'], ro, ' '.join(toks), rb)
            if t1 != t2:
                out.fail('C04/layout/%s/single-spaced' % vclass(v),
                         {'version': v, 'original': case['text'], 'baseline': ' '.join(toks), 'expected': t1, 'got': t2})
    lx = G.lex(v, ' '.join(toks)) or []
    lk = [k for k, _ in lx] if len(lx) == len(toks) else ['?'] * len(toks)
    for i, k in enumerate(kinds):
        if k != 'space':
            out.dim('separator_kind', k)
            adj = adjacency(lk[i], toks[i], lk[i + 1], toks[i + 1], k)
            if k != 'none' and adj != 'other':
                out.dim('separator_at', adj)
            elif k == 'none':
                out.dim('joined_pair', adj)
    if status == 'same':
        return
    blamed = False
    for i, k in enumerate(kinds):
        if k == 'space':
            continue
        single = [' '] * len(seps)
        single[i] = seps[i]
        st, det = layout_compare(v, toks, single)
        if st == 'diff' and k.startswith('c-') and k != 'c-plain':
            plain = list(single)
            plain[i] = '(: c :)'
            if layout_compare(v, toks, plain)[0] == 'diff':
                k = 'comment'          # any comment at this place breaks the parse
        elif st == 'diff' and k == 'c-plain':
            k = 'comment'
        if st == 'diff':
            adj = adjacency(lk[i], toks[i], lk[i + 1], toks[i + 1], 'c-plain' if k == 'comment' else k)
            if k not in ('none', 'space') and adj != 'any' and \
                    layout_compare(v, ['1', '+', "'x'"], ['(: c :)' if k == 'comment' else seps[i], ' '])[0] == 'diff':
                adj = 'any'            # the separator breaks even the neutral expression 1 + 'x'
            det['separator'] = seps[i]
            det['between'] = [toks[i], toks[i + 1]]
            det['version'] = v
            out.fail('C04/layout/%s/%s/%s' % (vclass(v), k, adj), det)
            blamed = True
    if not blamed:
        detail['version'] = v
        out.fail('C04/layout/%s/interaction' % vclass(v), detail)


# ------------------------------------------------------------------------------ hash-seed oracle
CHILD = r'''
import sys, json
sys.path.insert(0, sys.argv[1])
import elementpath
from elementpath import XPath1Parser, XPath2Parser, ElementPathError
from elementpath.xpath30 import XPath30Parser
from elementpath.xpath31 import XPath31Parser
P = {'1.0': XPath1Parser, '2.0': XPath2Parser, '3.0': XPath30Parser, '3.1': XPath31Parser}
data = json.load(sys.stdin)
out = {'file': elementpath.__file__, 'hash_of_a': hash('a'), 'patterns': {}, 'results': {}}
for v in sorted(data['corpus']):
    cls = P[v]
    tk = cls().tokenizer
    out['patterns'][v] = tk.pattern
    res = []
    for e in data['corpus'][v]:
        toks = [list(m.groups()) for m in tk.finditer(e)]
        try:
            r = ['ok', cls().parse(e).tree]
        except ElementPathError as err:
            r = ['err', str(err.code)]
        except Exception as err:
            r = ['exc', type(err).__name__]
        res.append([toks, r])
    out['results'][v] = res
json.dump(out, sys.stdout)
'''


def hashseed_corpus(seed, n):
    r = random.Random(seed)
    corpus = {}
    for v in G.VERSIONS:
        exprs = list(corpus_for(v))
        while len(exprs) < n:
            items = g_random_seq(r, v, 1, 4)
            text = G.flat(items)
            x = r.random()
            if x < 0.5:
                lay = g_layout(r, v, text)
                if lay is not None:
                    text = join(lay['toks'], lay['seps'])
            elif x < 0.7:
                base = r.choice(corpus_for(v))
                lay = g_layout(r, v, base)
                if lay is not None:
                    text = join(lay['toks'], lay['seps'])
            exprs.append(text)
        corpus[v] = exprs
    return corpus


def check_hashseed(case, out):
    seeds = case['seeds']
    corpus = hashseed_corpus(case['corpus_seed'], case['n'])
    payload = json.dumps({'corpus': corpus})
    procs = []
    for s in seeds:
        env = dict(os.environ, PYTHONHASHSEED=str(s))
        procs.append((s, subprocess.Popen([sys.executable, '-c', CHILD, bootstrap.REPO], stdin=subprocess.PIPE,
                                          stdout=subprocess.PIPE, stderr=subprocess.PIPE, env=env, text=True)))
    results = {}
    for s, p in procs:
        try:
            so, se = p.communicate(payload, timeout=600)
            results[s] = json.loads(so)
        except Exception as e:  # noqa
            try:
                p.kill()
            except Exception:
                pass
            out.fail('C04/hashseed/child-failed', {'seed': s, 'error': repr(e)[:300]})
            results[s] = None
    good = [s for s in seeds if results.get(s)]
    out.dim('hashseed_children', 'ok', len(good))
    patterns = {v: [] for v in G.VERSIONS}
    hashes = set()
    for s in good:
        res = results[s]
        hashes.add(res['hash_of_a'])
        if os.path.realpath(os.path.dirname(os.path.dirname(res['file']))) != os.path.realpath(bootstrap.REPO):
            out.fail('C04/hashseed/child-failed', {'seed': s, 'error': 'elementpath imported from ' + res['file']})
        for v in G.VERSIONS:
            ph = hashlib.blake2b(res['patterns'][v].encode(), digest_size=6).hexdigest()
            if ph not in patterns[v]:
                patterns[v].append(ph)
            out.dim('tokenizer_pattern_text:' + v, ph)
    info = {'seeds': list(good), 'distinct_str_hash_values': len(hashes),
            'distinct_tokenizer_pattern_texts': {v: len(patterns[v]) for v in G.VERSIONS}}
    HASHSEED_INFO.clear()
    HASHSEED_INFO.update(info)
    out.obs = json.dumps(info, sort_keys=True)
    out.nontrivial = len(hashes) >= 2
    if len(good) < 2:
        return
    base = results[good[0]]
    ncmp = 0
    for s in good[1:]:
        res = results[s]
        for v in G.VERSIONS:
            tok_bad = tree_bad = None
            for e, a, b in zip(corpus[v], base['results'][v], res['results'][v]):
                ncmp += 1
                if a[0] != b[0] and tok_bad is None:
                    tok_bad = {'version': v, 'expression': e, 'seeds': [good[0], s], 'tokens_a': a[0], 'tokens_b': b[0]}
                if a[1] != b[1] and tree_bad is None:
                    tree_bad = {'version': v, 'expression': e, 'seeds': [good[0], s], 'result_a': a[1], 'result_b': b[1]}
            if tok_bad:
                out.fail('C04/hashseed/%s/tokens' % vclass(v), tok_bad)
            if tree_bad:
                out.fail('C04/hashseed/%s/tree' % vclass(v), tree_bad)
    out.dim('hashseed_comparisons', 'n', ncmp)


# ------------------------------------------------------------------------------ harness interface
def check_case(kind, case):
    out = Outcome()
    _MODE['compat'] = bool(case.get('compat'))
    if _MODE['compat']:
        out.dim('compat_mode_cases:' + case.get('v', '?'), kind)
    if kind == 'grammar':
        check_grammar(case, out)
    elif kind == 'layout':
        check_layout(case, out)
    elif kind == 'source':
        check_source(case, out)
    elif kind == 'hashseed':
        check_hashseed(case, out)
    else:
        raise ValueError(kind)
    return out


def shrink(kind, case):
    for cand in _shrink(kind, case):
        if case.get('compat'):
            cand['compat'] = True
        yield cand
    if case.get('compat'):
        yield {k: x for k, x in case.items() if k != 'compat'}


def _shrink(kind, case):
    if kind == 'grammar':
        for cand in reductions(case['items']):
            if well_formed(cand):
                yield {'v': case['v'], 'items': cand}
    elif kind == 'layout':
        for i, s in enumerate(case['seps']):
            if s != ' ':
                seps = list(case['seps'])
                seps[i] = ' '
                yield {'v': case['v'], 'toks': case['toks'], 'seps': seps, 'text': case.get('text')}


# witnesses of the mechanisms found on the pinned tree plus boundary shapes: always executed, so that the
# set of keys does not depend on what the random generators happen to produce
DIRECTED_GRAMMAR = [
    ('1.0', [['a', 'a', 'step'], ['b', '='], ['a', '1', 'prim'], ['b', '='], ['a', '1', 'prim']]),
    ('1.0', [['a', 'a', 'step'], ['b', '<'], ['a', '1', 'prim'], ['b', '='], ['a', '1', 'prim']]),
    ('1.0', [['a', 'a', 'step'], ['b', '='], ['a', '1', 'prim'], ['b', '<'], ['a', '1', 'prim']]),
    ('1.0', [['a', "id('i')", 'prim'], ['b', '/'], ['a', 'a', 'step']]),
    ('1.0', [['a', '$x', 'prim'], ['b', '/'], ['a', 'a', 'step']]),
    ('1.0', [['u', '-'], ['a', 'a', 'step'], ['b', '|'], ['a', 'b', 'step']]),
    ('1.0', [['a', 'a', 'step'], ['b', '|'], ['u', '-'], ['a', 'b', 'step']]),
    ('1.0', [['a', 'node()', 'step'], ['b', '+'], ['a', '1', 'prim']]),
    ('1.0', [['a', 'node()', 'step'], ['b', '*'], ['a', 'a', 'step']]),
    ('1.0', [['a', 'text()', 'step'], ['b', '*'], ['a', '2', 'prim']]),
    ('2.0', [['a', 'node()', 'step'], ['b', '+'], ['a', '1', 'prim']]),
    ('3.1', [['a', 'node()', 'step'], ['b', '*'], ['u', '-'], ['a', '1', 'prim']]),
    ('2.0', [['a', '1', 'prim'], ['b', '='], ['a', '1', 'prim'], ['b', 'eq'], ['a', 'a', 'step']]),
    ('2.0', [['a', 'a', 'step'], ['b', '<<'], ['a', 'b', 'step'], ['b', '<<'], ['a', 'c', 'step']]),
    ('2.0', [['a', 'a', 'step'], ['b', 'is'], ['a', 'b', 'step'], ['b', 'is'], ['a', 'c', 'step']]),
    ('2.0', [['a', '1', 'prim'], ['b', 'to'], ['a', '2', 'prim'], ['b', 'to'], ['a', '3', 'prim']]),
    ('2.0', [['a', 'a', 'step'], ['b', 'or'], ['h', 'every $v in 1 to 3 satisfies'], ['a', 'a', 'step']]),
    ('2.0', [['a', '1', 'prim'], ['b', '+'], ['h', 'if (a) then 1 else'], ['a', '2', 'prim']]),
    ('2.0', [['h', 'if (a) then 1 else'], ['a', '2', 'prim'], ['b', '+'], ['a', '1', 'prim'], ['b', ','], ['a', '3', 'prim']]),
    ('2.0', [['a', 'a', 'step'], ['t', 'instance of', 'xs:decimal'], ['t', 'instance of', 'item()+']]),
    ('2.0', [['a', 'a', 'step'], ['t', 'instance of', 'xs:decimal'], ['t', 'treat as', 'item()+']]),
    ('2.0', [['a', "'1'", 'prim'], ['t', 'cast as', 'xs:integer'], ['t', 'cast as', 'xs:string']]),
    ('2.0', [['a', '1', 'prim'], ['t', 'treat as', 'xs:integer'], ['t', 'instance of', 'xs:integer']]),
    ('3.0', [['a', '1', 'prim'], ['t', 'instance of', 'node()*'], ['b', '!'], ['a', '1', 'prim']]),
    ('3.1', [['a', '1', 'prim'], ['t', 'instance of', 'xs:double+'], ['w', 'string', '()']]),
    ('2.0', [['a', '1', 'prim'], ['t', 'instance of', 'item()+'], ['b', '+'], ['a', '1', 'prim']]),
    ('2.0', [['a', 'a', 'step'], ['t', 'instance of', 'node()*'], ['b', '*'], ['a', '1', 'prim']]),
    ('2.0', [['a', '1', 'prim'], ['t', 'instance of', 'node()'], ['b', '*'], ['a', '*', 'step']]),
    ('2.0', [['a', '1', 'prim'], ['t', 'instance of', 'xs:integer'], ['b', '+'], ['a', '2', 'prim']]),
    ('2.0', [['a', '1', 'prim'], ['t', 'instance of', 'xs:integer*'], ['b', '*'], ['a', '2', 'prim']]),
    ('3.0', [['a', '1', 'prim'], ['b', '!'], ['u', '-'], ['a', '1', 'prim']]),
    ('2.0', [['a', 'a', 'step'], ['b', '/'], ['u', '-'], ['a', 'b', 'step']]),
    ('3.1', [['a', '$m', 'prim'], ['p', '?k', 'lookup'], ['b', '/'], ['a', 'a', 'step']]),
    ('3.1', [['a', '(a)', 'prim'], ['p', '?*', 'lookup'], ['b', '/'], ['a', 'a', 'step']]),
    ('3.1', [['u', '-'], ['a', 'a', 'step'], ['w', 'abs', '()'], ['t', 'cast as', 'xs:integer']]),
    ('3.1', [['a', 'array{1, 2}', 'prim'], ['b', '/'], ['a', 'a', 'step']]),
    ('3.1', [['a', 'map{1: 2}', 'prim'], ['b', '//'], ['a', 'a', 'step']]),
    ('3.1', [['a', '[1, 2]', 'prim'], ['b', '/'], ['a', 'a', 'step']]),
    ('3.0', [['a', 'abs#1', 'prim'], ['b', '/'], ['a', 'a', 'step']]),
    ('3.0', [['a', '$f', 'prim'], ['p', '(1)', 'call'], ['b', '/'], ['a', 'a', 'step']]),
    ('2.0', [['a', '1', 'prim'], ['b', '/'], ['a', 'a', 'step']]),
    ('2.0', [['a', 'a', 'step'], ['b', '/'], ['a', '1', 'prim']]),
    ('2.0', [['a', 'count(a)', 'prim'], ['b', '/'], ['a', 'a', 'step']]),
    ('3.1', [['u', '-'], ['a', 'a', 'step'], ['b', '!'], ['a', 'b', 'step'], ['b', '/'], ['a', 'c', 'step'], ['p', '[1]', 'pred']]),
]
DIRECTED_LAYOUT = [
    # (version, text, {index of the gap: separator})
    ('3.1', 'abs(?)', {1: '(: c :)'}), ('3.1', "concat('a', ?)", {3: ' (: c :) '}),
    ('3.1', 'map{1:2}', {2: ' (: c :)'}), ('3.1', 'map{1:2}', {3: '(: c :) '}), ('3.1', 'map{1:2}', {1: '(: c :) '}),
    ('3.0', 'abs#1 and true()', {0: '(: a :)', 4: '(: b :)'}), ('2.0', 'a + abs(1)', {0: ' (: x :) ', 2: '(: y :)'}),
    ('2.0', "1 + 'abc'", {0: " (: it's :) "}), ('2.0', '1 + "abc"', {0: ' (: say "x :) '}), ('2.0', '1 + 2', {0: " (: ' :) "}),
    ('2.0', 'abs(1)', {0: ' (: a\nb :) '}), ('2.0', 'abs(1)', {0: '(:\n:)'}), ('2.0', 'child::a', {0: ' (: a\nb :) '}),
    ('2.0', 'abs(1)', {0: '(: a :)(: b :)'}), ('2.0', 'abs(1)', {0: '(: a (: b :) c :)'}), ('2.0', 'abs(1)', {0: '(::)'}),
    ('2.0', 'abs(1)', {0: '\n'}), ('1.0', 'count(a)', {0: '\n'}), ('1.0', 'child::a', {0: '\n', 1: '\t'}),
    ('2.0', 'child::a', {0: '(: a :)(: b :)', 1: '(::)'}), ('2.0', 'if (a) then 1 else 2', {0: '(: c :)'}),
    ('2.0', 'for $x in a return $x', {0: '', 1: '(: c :)'}), ('2.0', 'a or(b)', {1: ''}), ('2.0', '1 div(2)', {1: ''}),
    ('2.0', '(a)div 2', {2: ''}), ('2.0', 'text()', {0: '(: c :)'}), ('2.0', 'attribute::n', {0: ' (: c :) '}),
    ('2.0', 'attribute(n)', {0: ' (: c :) '}), ('3.1', 'map{1:2}', {0: ' (: c :) '}), ('3.1', 'array{1}', {0: ' (: c :) '}),
    ('3.0', 'abs#1', {0: ' (: c :) ', 1: '(: d :)'}), ('2.0', '$x', {0: ' (: c :) '}), ('2.0', '@n', {0: ' (: c :) '}),
    ('2.0', '1 instance of xs:integer?', {3: ' (: c :) '}), ('2.0', 'a[1]', {0: '(: c :)', 1: '(: d :)', 2: '(: e :)'}),
]


def directed_layouts():
    for v, text, gaps in DIRECTED_LAYOUT:
        lx = G.lex(v, text)
        if not lx:
            continue
        toks = [t for _, t in lx]
        seps = [' '] * (len(toks) - 1)
        for i, s in gaps.items():
            if i < len(seps):
                seps[i] = s
        yield {'v': v, 'toks': toks, 'seps': seps, 'text': text}


def run(h):
    r = h.rng
    texts = {v: [] for v in G.VERSIONS}
    for v, items in DIRECTED_GRAMMAR:
        h.case('grammar', {'v': v, 'items': items})
    for lay in directed_layouts():
        h.case('layout', lay)
    # 1. all ordered pairs of operators, plain operands then decorated operands
    for v in G.VERSIONS:
        ops = op_items(v)
        for decor in (False, True):
            for a in ops:
                for b in ops:
                    items = build_seq(r, v, [a, b], decor)
                    h.case('grammar', {'v': v, 'items': items})
                    if len(texts[v]) < 400 and r.random() < 0.2:
                        texts[v].append(G.flat(items))
                    if decor and v != '1.0':
                        # the same grammar must hold for a 2.0+ parser in XPath 1.0 compatibility mode
                        h.case('grammar', {'v': v, 'items': build_seq(r, v, [a, b], decor), 'compat': True})
    # 2. random longer sequences
    for v in G.VERSIONS:
        for _ in range(h.n(700 if v != '1.0' else 400)):
            items = g_random_seq(r, v, 2, 4)
            if v != '1.0' and r.random() < 0.25:
                h.case('grammar', {'v': v, 'items': items, 'compat': True})
            else:
                h.case('grammar', {'v': v, 'items': items})
            if len(texts[v]) < 800 and r.random() < 0.4:
                texts[v].append(G.flat(items))
    # 3. source round trip of the hand-written corpus
    for v in G.VERSIONS:
        for e in corpus_for(v):
            h.case('source', {'v': v, 'e': e, 'valid': True})
            if v != '1.0':
                h.case('source', {'v': v, 'e': e, 'valid': True, 'compat': True})
    # 4. layout variants
    for v in G.VERSIONS:
        pool = corpus_for(v) + texts[v]
        for _ in range(h.n(900)):
            lay = g_layout(r, v, r.choice(pool))
            if lay is not None:
                if v != '1.0' and r.random() < 0.2:
                    lay['compat'] = True
                h.case('layout', lay)
    # 5. hash seeds
    if h.tier == 'quick' or h.nshards == 1:
        seeds = SEEDS[:3] if h.tier == 'quick' else SEEDS
    else:
        seeds = [SEEDS[0]] + [s for s in SEEDS[h.shard::h.nshards] if s != SEEDS[0]]
        if len(seeds) < 2:
            seeds.append(SEEDS[1])
    h.case('hashseed', {'seeds': seeds, 'corpus_seed': 4, 'n': 500}, cpu=600)
    if HASHSEED_INFO:
        h.extra['hashseed'] = [dict(HASHSEED_INFO, shard=h.shard)]


def floors(v):
    reasons = []
    for ver in G.VERSIONS:
        if v.got('grammar_cases:' + ver) < 300:
            reasons.append('fewer than 300 grammar cases for XPath %s' % ver)
        if v.got('layout_comparisons:' + ver, 'same') + v.got('layout_comparisons:' + ver, 'diff') < 200:
            reasons.append('fewer than 200 decided layout comparisons for XPath %s' % ver)
        npairs = len(v.counters.get('level_pair:' + ver, {}))
        need = 60 if ver == '1.0' else 150
        if npairs < need:
            reasons.append('only %d distinct precedence-level pairs exercised for XPath %s' % (npairs, ver))
    for ver in G.VERSIONS[1:]:
        if v.got('compat_mode_cases:' + ver) < 300:
            reasons.append('fewer than 300 cases with an XPath %s parser in compatibility mode' % ver)
    if v.got('grammar_agree', 'same-tree') < 2000:
        reasons.append('fewer than 2000 flat/parenthesised tree comparisons agreed')
    if v.got('grammar_agree', 'both-syntax-error') < 50:
        reasons.append('fewer than 50 expected syntax errors confirmed')
    if v.got('source_roundtrips') < 3000:
        reasons.append('fewer than 3000 source round trips')
    if v.got('source_value_comparisons') < 1000:
        reasons.append('fewer than 1000 value comparisons after a source round trip')
    if v.got('hashseed_children', 'ok') < 3:
        reasons.append('fewer than 3 hash-seed child interpreters produced results')
    if v.got('hashseed_comparisons', 'n') < 2000:
        reasons.append('fewer than 2000 cross-seed comparisons')
    for k in ('none', 'ws', 'c-plain', 'c-empty', 'c-nested', 'c-newline', 'c-multi'):
        if v.got('separator_kind', k) < 50:
            reasons.append('separator kind %s used fewer than 50 times' % k)
    if v.got('separator_at', 'name~(') < 30:
        reasons.append('fewer than 30 separators between a function name and its parenthesis')
    return reasons
