"""C09 - string functions agree with their F&O definitions on all Unicode strings; the XPath 1.0
string functions agree with libxml2.

Three kinds of case, all with the operands passed as XPath variables (no quoting issues):
  fo   one function call under the 2.0 / 3.0 / 3.1 parser compared with models/strings.py
  xp1  one function call under the 1.0 parser compared with libxml2 (lxml) and the XPath 1.0 model
  law  the two engine-only laws of the statement (code-point round trip, before + t + after)
"""
import json
import math
import xml.etree.ElementTree as ET
from decimal import Decimal

from lxml import etree as _lxml

from ..core import Outcome
from ..engine import call, describe, PARSERS
from ..models import strings as M

from elementpath import XPathContext

PROPERTY = 'C09'
LEVEL = 'exploration'
RULE = ('one call f($a0,...,$an) per case, operands bound as variables: strings of 0-12 code points drawn from '
        'per-case profiles over ASCII, XML and non-XML whitespace, combining marks, astral code points, '
        'case-special letters and URI-reserved characters (second operands mostly cut out of / mutated from the '
        'first); positions/lengths from {k, k+-.5, k+-.25, negatives, +-0, +-INF, NaN, 2^53, 1e300} as double / '
        'integer / decimal; empty sequences; codepoint and html-ascii-case-insensitive collations. A case is '
        'non-trivial when at least one string operand (or code-point list) is non-empty; distinct by canonical '
        'JSON of (kind, function, version, operands).')
ASSUMPTIONS = [
    'models/strings.py (F&O 3.1 / XPath 1.0 definitions transcribed) is the ground truth for the 2.0+ parsers',
    'upper-case/lower-case: the interpreter\'s str.upper()/str.lower() (Unicode %s default case mapping) is the model'
    % __import__('unicodedata').unidata_version,
    'XPath 1.0: a difference is reported only when libxml2 and the XPath 1.0 model agree with each other; '
    'inputs lxml refuses (non-XML characters) are not decided',
    'only the codepoint and html-ascii-case-insensitive collations are executed (C locale only in the sandbox); '
    'html-ascii-case-insensitive is exercised with the 3.1 parser only (defined by F&O 3.1)',
    'strings holding characters outside XML 1.0 Char: an engine error is accepted, a wrong value is not',
    'code points that are Char in XML 1.1 only: codepoints-to-string may return the string or raise FOCH0001',
]

VERSIONS = ['2.0', '3.0', '3.1']
COLL_URI = {'cp': M.CODEPOINT, 'haci': M.HACI, 'unknown': 'http://example.com/rv/unknown-collation'}

# ------------------------------------------------------------------ alphabets
ASCII = list('abAB12xyZ-')
XML_WS = list(' \t\n\r')
# characters Python's str.split()/isspace() treat as blanks but XML production S does not
NONXML_WS = ['\u0085', '\u00a0', '\u2028', '\u2029', '\u3000', '\u1680', '\u2003', '\u202f', '\u205f']
NONXML10_WS = ['\x0b', '\x0c', '\x1c', '\x1f']          # Python whitespace, not XML 1.0 Char
COMBINING = ['\u0301', '\u0308', '\u0323', '\u00e9', 'e\u0301', '\u00e4']
ASTRAL = ['\U0001F600', '\U00010000', '\U0001D11E', '\U0010FFFD', '\U00010400', '\U00010428']
# sharp s, dotted capital I, dotless i, Dz digraph titlecase, sigmas, fi ligature, Kelvin, Angstrom,
# n-apostrophe, capital sharp s, long s, plus their ASCII neighbours
CASE_SPECIAL = ['\u00df', '\u0130', '\u0131', '\u01c5', '\u03a3', '\u03c3', '\u03c2', '\ufb01', '\u212a',
                '\u212b', '\u0149', '\u1e9e', '\u017f', 'I', 'i', 'K', 'k', 'S', 's']
URI_CHARS = list('%/?#[]@!$&\'()*+,;=:~-_. <>"{}|\\^`') + ['\x7f', '\u00e9', '\u20ac', '\U0001F600', '\t']
BOUNDARY = ['\ud7ff', '\ue000', '\ufffd', '\x7f', '\x80']

PROFILES = {
    'ascii': [(ASCII, 10)],
    'ws': [(ASCII, 4), (XML_WS, 4), (NONXML_WS, 3)],
    'ws10': [(ASCII, 4), (XML_WS, 3), (NONXML_WS, 2), (NONXML10_WS, 2)],
    'astral': [(ASCII, 4), (ASTRAL, 4), (COMBINING, 2)],
    'case': [(ASCII, 3), (CASE_SPECIAL, 6), (ASTRAL, 1)],
    'uri': [(ASCII, 2), (URI_CHARS, 8)],
    'mixed': [(ASCII, 3), (XML_WS, 1), (NONXML_WS, 1), (COMBINING, 1), (ASTRAL, 2), (CASE_SPECIAL, 2),
              (URI_CHARS, 1), (BOUNDARY, 1)],
    'small': [(['a', 'b'], 8), (['A', '\U0001F600'], 2)],
}
XML_SAFE_PROFILES = ['ascii', 'ws', 'astral', 'case', 'uri', 'mixed', 'small']

_PY_SPACE_NOT_XML = set(NONXML_WS) | set(NONXML10_WS)


def g_string(r, profile, maxlen=12, minlen=0):
    pools = PROFILES[profile]
    total = sum(w for _, w in pools)
    n = r.choice([0, 1, 1, 2, 3, 3, 4, 5, 5, 6, 8, 10, 12])
    n = max(minlen, min(n, maxlen))
    out = []
    for _ in range(n):
        x = r.random() * total
        for pool, w in pools:
            x -= w
            if x < 0:
                out.append(r.choice(pool))
                break
    return ''.join(out)[:maxlen + 4]


def g_second(r, s, profile):
    """second operand: cut out of s, mutated, case-swapped, or independent"""
    x = r.random()
    if s and x < 0.55:
        i = r.randint(0, len(s))
        j = r.randint(i, min(len(s), i + 4))
        y = r.random()
        if y < 0.3:
            t = s[:j]
        elif y < 0.6:
            t = s[i:]
        else:
            t = s[i:j]
        z = r.random()
        if z < 0.15:
            t = t.swapcase()
        elif z < 0.25 and t:
            k = r.randrange(len(t))
            t = t[:k] + r.choice(ASCII) + t[k + 1:]
        return t
    if x < 0.65:
        return ''
    if x < 0.75:
        return s
    return g_string(r, profile, maxlen=4)


def fmt_d(x):
    if x != x:
        return 'NaN'
    if x == math.inf:
        return 'INF'
    if x == -math.inf:
        return '-INF'
    return repr(float(x))


def parse_d(t):
    return {'NaN': math.nan, 'INF': math.inf, '-INF': -math.inf}.get(t) if t in ('NaN', 'INF', '-INF') else float(t)


SPECIAL_D = [math.nan, math.inf, -math.inf, -0.0, 0.0, 1e300, -1e300, 2.0 ** 53, -(2.0 ** 53), 2.0 ** 53 + 2,
             0.49999999999999994, 1.4999999999999998, 2.5000000000000004, 1e-300, 4294967296.5]


def g_number(r, n, kinds=('d', 'd', 'd', 'i', 'dec'), nonneg=False):
    """a position / length operand around the string length n -> [tag, text]"""
    x = r.random()
    if x < 0.14:
        v = r.choice(SPECIAL_D)
        if nonneg and v == v and v < 0 and r.random() < 0.7:
            v = -v
        return ['d', fmt_d(v)]
    k = r.randint(0 if nonneg else -3, n + 3)
    frac = r.choice([0, 0, 0.5, 0.5, 0.5, -0.5, 0.25, 0.75, 0.49, 0.51])
    kind = r.choice(kinds)
    if kind == 'i':
        return ['i', k]
    if kind == 'dec':
        return ['dec', str(Decimal(k) + Decimal(str(frac)))]
    return ['d', fmt_d(k + frac)]


# ------------------------------------------------------------------ operand decoding
def decode(a):
    t = a[0]
    if t == 's':
        return a[1]
    if t == 'e':
        return []
    if t == 'd':
        return parse_d(a[1])
    if t == 'i':
        return int(a[1])
    if t == 'dec':
        return Decimal(a[1])
    if t == 'b':
        return bool(a[1])
    if t == 'il':
        return [int(x) for x in a[1]]
    raise ValueError(a)


def str_classes(s):
    c = set()
    if s == '':
        return {'empty'}
    for ch in s:
        cp = ord(ch)
        if ch in ' \t\n\r':
            c.add('xml-ws')
        elif ch in _PY_SPACE_NOT_XML:
            c.add('nonxml-ws')
        elif cp > 0xFFFF:
            c.add('astral')
        elif 0x300 <= cp <= 0x36F:
            c.add('combining')
        elif cp < 0x80:
            c.add('uri-reserved' if not ch.isalnum() else 'ascii')
        elif ch.upper() != ch or ch.lower() != ch:
            c.add('cased-nonascii')
        else:
            c.add('other-bmp')
        if not M.is_xml10_char(cp):
            c.add('non-xml10-char')
    return c


def num_class(a):
    if a[0] == 'i':
        v = float(a[1])
    elif a[0] == 'dec':
        v = float(Decimal(a[1]))
    elif a[0] == 'd':
        v = parse_d(a[1])
    else:
        return a[0]
    if v != v:
        return 'NaN'
    if v in (math.inf, -math.inf):
        return 'INF' if v > 0 else '-INF'
    if abs(v) >= 2.0 ** 52:
        return 'huge'
    f = v - math.floor(v)
    if f == 0.5:
        s = 'half-even-floor' if math.floor(v) % 2 == 0 else 'half-odd-floor'
    elif f == 0:
        s = 'integral'
    else:
        s = 'fraction'
    return ('neg-' if v < 0 else '') + s


# ------------------------------------------------------------------ engine / libxml2 access
def run_engine(ver, expr, variables):
    def f():
        parser = PARSERS[ver]()
        tok = parser.parse(expr)
        ctx = XPathContext(root=ET.XML('<r/>'), variables=variables)
        return tok.evaluate(ctx)
    return call(f)


_LROOT = _lxml.XML('<r/>')


def run_libxml2(expr, variables):
    """-> ('ok', value) | ('rejected',) | ('fail', text)"""
    try:
        v = _LROOT.xpath(expr, **variables)
    except ValueError:
        return ('rejected',)
    except _lxml.XPathError as e:
        return ('fail', type(e).__name__)
    if isinstance(v, str):
        v = str(v)
    return ('ok', v)


def norm(o):
    """engine outcome -> ('ok', [described items]) | ('err', code) | ('exc', type, where)"""
    if o[0] == 'ok':
        v = o[1]
        if not isinstance(v, list):
            v = [v]
        return ('ok', [describe(x) for x in v])
    if o[0] == 'err':
        return ('err', o[1])
    return o


def S(x):
    return [['string', x]]


def B(x):
    return [['boolean', 'true' if x else 'false']]


def I(x):
    return [['integer', str(x)]]


# ------------------------------------------------------------------ F&O model dispatch
STR1 = {'normalize-space': M.normalize_space, 'upper-case': M.upper_case, 'lower-case': M.lower_case,
        'encode-for-uri': M.encode_for_uri, 'iri-to-uri': M.iri_to_uri, 'escape-html-uri': M.escape_html_uri}
COLLFN = {'contains': (M.contains, B), 'starts-with': (M.starts_with, B), 'ends-with': (M.ends_with, B),
          'substring-before': (M.substring_before, S), 'substring-after': (M.substring_after, S)}
FO_FUNCTIONS = ['substring', 'substring-before', 'substring-after', 'contains', 'starts-with', 'ends-with',
                'translate', 'normalize-space', 'string-length', 'upper-case', 'lower-case', 'concat', 'compare',
                'codepoint-equal', 'string-to-codepoints', 'codepoints-to-string', 'encode-for-uri', 'iri-to-uri',
                'escape-html-uri']


def opt_str(a):
    """value of an xs:string? operand under the 'empty sequence is the zero-length string' rule"""
    return '' if a[0] == 'e' else a[1]


def atomic_string(a):
    t = a[0]
    if t == 's':
        return a[1]
    if t == 'e':
        return ''
    if t == 'b':
        return 'true' if a[1] else 'false'
    if t == 'i':
        return str(int(a[1]))
    if t == 'dec':
        return M.string_of_decimal(Decimal(a[1]))
    if t == 'd':
        return M.xp2_string_of_double(parse_d(a[1]))
    raise ValueError(a)


def model_fo(fn, args, coll):
    """-> ('ok', described items) | ('err', code) | ('anyerr',) | ('either', described items, code)"""
    if coll == 'unknown':
        # an operand that decides the result on its own may be looked at before the collation is resolved
        if any(a[0] == 'e' or a[1] == '' for a in args):
            r = model_fo(fn, args, None)
            return ('either', r[1], 'FOCH0002') if r[0] == 'ok' else r
        return ('err', 'FOCH0002')
    key = M.key_haci if coll == 'haci' else M.key_codepoint
    if fn == 'substring':
        if any(a[0] == 'e' for a in args[1:]):
            # a type error (which code is not pinned down here); when the start alone decides the
            # result the length operand need not be looked at
            if args[1][0] != 'e' and num_class(args[1]) in ('NaN', 'INF', '-INF') and len(args) == 3:
                return ('either', S(''), None)
            return ('anyerr',)
        nums = [float(decode(a)) for a in args[1:]]
        return ('ok', S(M.substring(opt_str(args[0]), *nums)))
    if fn in COLLFN:
        f, wrap = COLLFN[fn]
        return ('ok', wrap(f(opt_str(args[0]), opt_str(args[1]), key)))
    if fn == 'translate':
        if args[1][0] == 'e' or args[2][0] == 'e':
            return ('anyerr',)
        return ('ok', S(M.translate(opt_str(args[0]), args[1][1], args[2][1])))
    if fn in STR1:
        return ('ok', S(STR1[fn](opt_str(args[0]))))
    if fn == 'string-length':
        return ('ok', I(M.string_length(opt_str(args[0]))))
    if fn == 'concat':
        return ('ok', S(''.join(atomic_string(a) for a in args)))
    if fn == 'compare':
        if args[0][0] == 'e' or args[1][0] == 'e':
            return ('ok', [])
        return ('ok', I(M.compare(args[0][1], args[1][1], key)))
    if fn == 'codepoint-equal':
        if args[0][0] == 'e' or args[1][0] == 'e':
            return ('ok', [])
        return ('ok', B(M.codepoint_equal(args[0][1], args[1][1])))
    if fn == 'string-to-codepoints':
        return ('ok', [['integer', str(cp)] for cp in M.string_to_codepoints(opt_str(args[0]))])
    if fn == 'codepoints-to-string':
        r = M.codepoints_to_string(decode(args[0]))
        if r[0] == 'err':
            return r
        if r[0] == 'either':
            return ('either', S(r[1]), 'FOCH0001')
        return ('ok', S(r[1]))
    raise ValueError(fn)


def expr_of(fn, nargs, coll):
    parts = ['$a%d' % i for i in range(nargs)]
    if coll is not None:
        parts.append("'%s'" % COLL_URI[coll])
    return '%s(%s)' % (fn, ', '.join(parts))


def py_round_substring(s, nums):
    """what substring gives when positions are rounded half-to-even (diagnosis only)"""
    def rnd(x):
        if x != x or x in (math.inf, -math.inf):
            return x
        return float(round(x))
    rs = rnd(nums[0])
    if len(nums) == 1:
        return ''.join(c for p, c in enumerate(s, 1) if rs <= p)
    end = rs + rnd(nums[1])
    return ''.join(c for p, c in enumerate(s, 1) if rs <= p and p < end)


def has_casefold_special(strs):
    for s in strs:
        for ch in s:
            if ord(ch) > 0x7F and ch.casefold() != ch:
                return True
    return False


def pinned_double_repr(v):
    """the double-to-string form pinned by the repository's own tests (tests/test_xpath_tokens.py): Python's
    repr with the mantissa trimmed and 'E' + Python's exponent digits.  A listed exponent-form finding is only
    recognised when the engine produced exactly this string; any other string is a different defect."""
    m, _, e = repr(float(v)).partition('e')
    if '.' in m:
        m = m.rstrip('0').rstrip('.')
    return m + ('E' + e.replace('+', '') if e else '')


def classify_fo(fn, args, coll, want, got, ver='3.1'):
    """mechanism class of a disagreement (diagnosis from the operands, never from the values themselves)"""
    if got[0] == 'exc':
        return 'exception/%s@%s' % (got[1], got[2])
    strs = [a[1] for a in args if a[0] == 's']
    if coll == 'unknown':
        return 'unknown-collation'
    if coll == 'haci':
        if has_casefold_special(strs):
            return None, 'C09/collation/haci/non-ascii-case-folding'
        return 'haci'
    if fn == 'substring':
        if want[0] != 'ok' or got[0] != 'ok':
            return 'error-outcome'
        nums = [float(decode(a)) for a in args[1:]]
        if nums[0] == -math.inf:
            return 'start-negative-infinity'
        if got[0] == 'ok' and got[1] == S(py_round_substring(opt_str(args[0]), nums)):
            return 'round-half-to-even'
        if any(abs(x) >= 2.0 ** 52 for x in nums if x == x):
            return 'huge-operand'
        return 'value'
    if fn == 'translate':
        if want[0] != 'ok' or got[0] != 'ok':
            return 'error-outcome'
        m = args[1][1]
        if len(set(m)) != len(m):
            return 'duplicate-in-map-string'
        return 'value'
    if fn == 'normalize-space':
        if any(ch in _PY_SPACE_NOT_XML for s in strs for ch in s):
            return 'non-xml-whitespace'
        return 'value'
    if fn == 'concat':
        if want[0] != 'ok' or got[0] != 'ok':
            return 'error-outcome'
        # diagnosis: which operand type is already converted wrongly by string()?
        for a in args:
            if a[0] in ('s', 'e'):
                continue
            conv = norm(run_engine(ver, 'string($a)', {'a': decode(a)}))
            if conv == ('ok', S(atomic_string(a))):
                continue
            if a[0] == 'd':
                v = parse_d(a[1])
                # outside [1e-4, 1e6) either the XPath or the host-language repr uses an exponent
                if v == v and v not in (math.inf, -math.inf) and v != 0 and not (0.0001 <= abs(v) < 1000000) \
                        and conv == ('ok', S(pinned_double_repr(v))):
                    # exactly the representation the repository's tests pin, nothing else
                    return 'double-exponent-form'
            return 'string-of-' + {'d': 'double', 'dec': 'decimal', 'i': 'integer', 'b': 'boolean'}[a[0]]
        return 'value'
    if fn == 'codepoints-to-string':
        return 'error-outcome' if (want[0] == 'err' or got[0] == 'err') else 'value'
    if want[0] != 'ok' or got[0] != 'ok':
        return 'error-outcome'
    if any(a[0] == 'e' for a in args):
        return 'empty-sequence-operand'
    return 'value'


def check_fo(case, out):
    fn, ver, args, coll = case['fn'], case['ver'], case['args'], case.get('coll')
    expr = expr_of(fn, len(args), coll)
    variables = {'a%d' % i: decode(a) for i, a in enumerate(args)}
    want = model_fo(fn, args, coll)
    got = norm(run_engine(ver, expr, variables))
    out.dim('fo_function', fn)
    out.dim('fo_version', ver)
    out.dim('oracle_comparisons', 'model')
    out.dim('collation', coll or 'default')
    classes = set()
    for a in args:
        if a[0] == 's':
            classes |= str_classes(a[1])
        elif a[0] == 'e':
            classes.add('empty-sequence')
        elif a[0] == 'il':
            classes.add('codepoint-list')
    for c in sorted(classes):
        out.dim('string_class', c)
        out.dim('fn_x_class', '%s:%s' % (fn, c))
    if fn == 'substring':
        out.dim('substring_start', num_class(args[1]))
        out.dim('substring_start_type', args[1][0])
        if len(args) > 2:
            out.dim('substring_length', num_class(args[2]))
    if fn == 'concat':
        for a in args:
            out.dim('concat_operand_type', a[0])
    out.nontrivial = any((a[0] in ('s', 'il') and len(a[1]) > 0) for a in args)
    out.obs = '%s [%s] -> %s' % (expr, ver, _short(got))
    non10 = 'non-xml10-char' in classes

    if want[0] == 'either':
        ok = (got == ('ok', want[1])) or (got[0] == 'err' and want[2] in (None, got[1]))
        out.dim('undecided', 'value-or-error:' + fn)
    elif want[0] == 'ok':
        ok = got == ('ok', want[1])
        if not ok and non10 and got[0] == 'err':
            ok = True
            out.dim('undecided', 'non-xml10-char-rejected')
    elif want[0] == 'anyerr':
        ok = got[0] == 'err'
        out.dim('undecided', 'error-code-of-type-error')
    else:
        ok = got == want
    out.dim('result_kind', got[0] if got[0] != 'ok' else ('empty' if got[1] in ([], S('')) else 'value'))
    if ok:
        return
    cls = classify_fo(fn, args, coll, want, got, ver)
    if isinstance(cls, tuple):
        key = cls[1]
    else:
        key = 'C09/%s/%s' % (fn, cls)
    out.fail(key, {'expr': expr, 'version': ver, 'operands': args, 'expected': want, 'got': got})


def check_reuse(case, out):
    """one parsed expression evaluated over several argument sets (a path step, a `for` body, a Selector used twice
    all do this): every evaluation must give what a fresh parse gives for the same arguments"""
    fn, ver, argsets, coll = case['fn'], case['ver'], case['argsets'], case.get('coll')
    expr = expr_of(fn, len(argsets[0]), coll)
    # arguments that are the same in every set may be written as literals (a cache keyed on "the literal arguments")
    for i in case.get('literal', []):
        a = argsets[0][i]
        if all(x[i] == a for x in argsets) and a[0] == 's' and all(0x20 <= ord(c) < 0xd800 and c not in '{}\x7f\x85' for c in a[1]):
            expr = expr.replace('$a%d' % i, "'" + a[1].replace("'", "''") + "'")
            out.dim('reuse_literal_argument', i)
    out.dim('reuse_function', fn)
    fresh = [norm(run_engine(ver, expr, {'a%d' % i: decode(a) for i, a in enumerate(args)})) for args in argsets]

    def f():
        tok = PARSERS[ver]().parse(expr)
        res = []
        for args in argsets:
            ctx = XPathContext(root=ET.XML('<r/>'), variables={'a%d' % i: decode(a) for i, a in enumerate(args)})
            res.append(norm(call(tok.evaluate, ctx)))
        return res
    o = call(f)
    out.nontrivial = len({json.dumps(x, sort_keys=True, default=str) for x in fresh}) > 1
    out.obs = '%s [%s] x %d argument sets' % (expr, ver, len(argsets))
    if o[0] != 'ok':
        if o[0] == 'err' and all(f[0] == 'err' and f[1] == o[1] for f in fresh):
            out.dim('reuse_static_error', o[1])      # all-literal call folded (and failing) at parse time, as when fresh
            return
        out.fail('C09/%s/reused-expression/raised' % fn, {'expr': expr, 'version': ver, 'got': list(o)})
        return
    for k, (a, b) in enumerate(zip(fresh, o[1])):
        out.dim('reuse_evaluations', 'first' if k == 0 else 'later')
        if a != b:
            out.fail('C09/%s/reused-expression/differs-from-fresh-parse/%s' % (fn, 'first' if k == 0 else 'later-evaluation'),
                     {'expr': expr, 'version': ver, 'argument_sets': argsets, 'evaluation': k, 'fresh': a, 'reused': b})
            return


def _short(o):
    t = repr(o)
    return t if len(t) < 160 else t[:157] + '...'


# ------------------------------------------------------------------ XPath 1.0 vs libxml2
XP1_FUNCTIONS = ['substring', 'substring-before', 'substring-after', 'contains', 'starts-with', 'translate',
                 'normalize-space', 'string-length', 'concat']
XP1_SHARED_IMPL = {'substring', 'translate', 'normalize-space', 'string-length', 'concat'}


def xp1_str(a):
    t = a[0]
    if t == 's':
        return a[1]
    if t == 'b':
        return 'true' if a[1] else 'false'
    if t == 'd':
        return M.xp1_string_of_number(parse_d(a[1]))
    raise ValueError(a)


def xp1_num(a):
    t = a[0]
    if t == 'd':
        return parse_d(a[1])
    if t == 'b':
        return 1.0 if a[1] else 0.0
    if t == 's':
        return M.xp1_number(a[1])
    raise ValueError(a)


def model_xp1(fn, args):
    if fn == 'substring':
        return M.substring(xp1_str(args[0]), *[xp1_num(a) for a in args[1:]])
    sa = [xp1_str(a) for a in args]
    if fn == 'substring-before':
        return M.substring_before(*sa)
    if fn == 'substring-after':
        return M.substring_after(*sa)
    if fn == 'contains':
        return M.contains(*sa)
    if fn == 'starts-with':
        return M.starts_with(*sa)
    if fn == 'translate':
        return M.translate(*sa)
    if fn == 'normalize-space':
        return M.normalize_space(sa[0])
    if fn == 'string-length':
        return M.string_length(sa[0])
    if fn == 'concat':
        return ''.join(sa)
    raise ValueError(fn)


def same_xp1(a, b):
    if isinstance(a, bool) or isinstance(b, bool):
        return isinstance(a, bool) and isinstance(b, bool) and a == b
    if isinstance(a, str) or isinstance(b, str):
        return isinstance(a, str) and isinstance(b, str) and a == b
    if isinstance(a, (int, float)) and isinstance(b, (int, float)):
        return float(a) == float(b)
    return False


def classify_xp1(fn, args, eng):
    if eng[0] == 'exc':
        return 'exception/%s@%s' % (eng[1], eng[2])
    str_slots = range(len(args)) if fn != 'substring' else [0]
    for i in str_slots:
        a = args[i]
        if a[0] in ('d', 'b'):
            # diagnosis: is the implicit conversion of this operand to a string already different?
            conv = run_engine('1.0', 'string($a%d)' % i, {'a%d' % i: decode(a)})
            if conv == ('ok', xp1_str(a)):
                continue
        if a[0] == 'd':
            v = parse_d(a[1])
            if v in (math.inf, -math.inf):
                return None, 'C09/xp1-string-of-number/infinity'
            if v == 0 and math.copysign(1.0, v) < 0:
                return None, 'C09/xp1-string-of-number/negative-zero'
            if v == v and v != 0 and (abs(v) < 0.0001 or abs(v) >= 1e16) and \
                    conv == ('ok', pinned_double_repr(v)):
                return None, 'C09/xp1-string-of-number/exponent-form'
            return None, 'C09/xp1-string-of-number/value'
        if a[0] == 'b':
            return None, 'C09/xp1-string-of-boolean'
    if fn == 'substring':
        if any(a[0] != 'd' for a in args[1:]):
            return 'xp1-non-number-position-operand'
        nums = [xp1_num(a) for a in args[1:]]
        if nums[0] == -math.inf:
            return 'start-negative-infinity'
        if eng[0] == 'ok' and eng[1] == py_round_substring(xp1_str(args[0]), nums):
            return 'round-half-to-even'
        return 'value'
    if eng[0] == 'err':
        return 'error-outcome'
    sa = [xp1_str(a) for a in args]
    if fn == 'translate' and len(set(sa[1])) != len(sa[1]):
        return 'duplicate-in-map-string'
    if fn == 'normalize-space' and any(ch in _PY_SPACE_NOT_XML for ch in sa[0]):
        return 'non-xml-whitespace'
    return 'value'


def check_xp1(case, out):
    fn, args = case['fn'], case['args']
    expr = expr_of(fn, len(args), None)
    variables = {'a%d' % i: decode(a) for i, a in enumerate(args)}
    out.dim('xp1_function', fn)
    classes = set()
    for a in args:
        if a[0] == 's':
            classes |= str_classes(a[1])
        else:
            classes.add('operand-type-' + a[0])
    for c in sorted(classes):
        out.dim('xp1_string_class', c)
    if fn == 'substring' and args[1][0] == 'd':
        out.dim('xp1_substring_start', num_class(args[1]))
    out.nontrivial = any(a[0] == 's' and a[1] for a in args)
    lib = run_libxml2(expr, variables)
    if lib[0] != 'ok':
        out.dim('undecided', 'libxml2-' + lib[0])
        out.nontrivial = False
        out.obs = '%s: lxml %s' % (expr, lib[0])
        return
    eng = run_engine('1.0', expr, variables)
    out.dim('oracle_comparisons', 'libxml2')
    out.obs = '%s [1.0] -> %s ; libxml2 %r' % (expr, _short(eng), lib[1])
    mod = model_xp1(fn, args)
    if not same_xp1(lib[1], mod):
        # libxml2 deviates from XPath 1.0 here (e.g. number formatting beyond 15 digits): not decided
        out.dim('undecided', 'libxml2-differs-from-xpath1-model:' + fn)
        return
    if eng[0] == 'ok' and same_xp1(eng[1], lib[1]):
        return
    cls = classify_xp1(fn, args, eng)
    if isinstance(cls, tuple):
        key = cls[1]
    elif fn in XP1_SHARED_IMPL or cls.startswith('exception/'):
        key = 'C09/%s/%s' % (fn, cls)
    else:
        key = 'C09/xp1-%s/%s' % (fn, cls)
    got = eng if eng[0] != 'ok' else ('ok', describe(eng[1]))
    out.fail(key, {'expr': expr, 'version': '1.0', 'operands': args, 'libxml2': lib[1], 'got': got})


# ------------------------------------------------------------------ laws
def check_law(case, out):
    law, ver = case['law'], case['ver']
    out.dim('law', '%s:%s' % (law, ver))
    if law == 'roundtrip':
        s = case['s']
        got = norm(run_engine(ver, 'codepoints-to-string(string-to-codepoints($s))', {'s': s}))
        out.nontrivial = s != ''
        out.obs = 'roundtrip %r -> %s' % (s, _short(got))
        for c in sorted(str_classes(s)):
            out.dim('law_string_class', c)
        if got != ('ok', S(s)):
            if got[0] == 'exc':
                out.fail('C09/law/roundtrip/exception/%s@%s' % (got[1], got[2]), {'s': s, 'got': got})
            else:
                out.fail('C09/law/codepoints-roundtrip', {'s': s, 'version': ver, 'got': got})
        return
    s, t = case['s'], case['t']
    variables = {'s': s, 't': t}
    c = norm(run_engine(ver, 'contains($s, $t)', variables))
    out.nontrivial = False
    out.obs = 'contains(%r, %r) -> %s' % (s, t, _short(c))
    if c == ('ok', B(True)):
        out.dim('law_reconstruct', 'contains-true')
        out.nontrivial = s != ''
        got = norm(run_engine(ver, 'concat(substring-before($s, $t), $t, substring-after($s, $t))', variables))
        out.obs += ' ; before+t+after -> %s' % _short(got)
        if got != ('ok', S(s)):
            if got[0] == 'exc':
                out.fail('C09/law/reconstruct/exception/%s@%s' % (got[1], got[2]), {'s': s, 't': t, 'got': got})
            else:
                out.fail('C09/law/before-t-after' + ('/xp1' if ver == '1.0' else ''),
                         {'s': s, 't': t, 'version': ver, 'got': got})
    elif c == ('ok', B(False)):
        out.dim('law_reconstruct', 'contains-false')
    else:
        out.dim('law_reconstruct', 'contains-other')
        if c[0] == 'exc':
            out.fail('C09/law/reconstruct/exception/%s@%s' % (c[1], c[2]), {'s': s, 't': t, 'got': c})


# ------------------------------------------------------------------ harness interface
def check_case(kind, case):
    out = Outcome()
    if kind == 'fo':
        check_fo(case, out)
    elif kind == 'xp1':
        check_xp1(case, out)
    elif kind == 'law':
        check_law(case, out)
    elif kind == 'reuse':
        check_reuse(case, out)
    else:
        raise ValueError(kind)
    return out


def _shrunk_strings(s):
    for i in range(len(s)):
        yield s[:i] + s[i + 1:]


def shrink(kind, case):
    if kind in ('fo', 'xp1'):
        args = case['args']
        if kind == 'fo' and case['fn'] == 'concat' and len(args) > 2:
            for i in range(len(args)):
                yield dict(case, args=args[:i] + args[i + 1:])
        for i, a in enumerate(args):
            if a[0] == 's':
                for s2 in _shrunk_strings(a[1]):
                    yield dict(case, args=args[:i] + [['s', s2]] + args[i + 1:])
                for ch in a[1]:
                    if ch not in 'ab' and ord(ch) < 0x80:
                        yield dict(case, args=args[:i] + [['s', a[1].replace(ch, 'a')]] + args[i + 1:])
                        break
            elif a[0] == 'il':
                for j in range(len(a[1])):
                    yield dict(case, args=args[:i] + [['il', a[1][:j] + a[1][j + 1:]]] + args[i + 1:])
            elif a[0] == 'dec':
                yield dict(case, args=args[:i] + [['d', fmt_d(float(Decimal(a[1])))]] + args[i + 1:])
        if kind == 'fo' and case['ver'] != '2.0' and case.get('coll') != 'haci':
            yield dict(case, ver='2.0')
    elif kind == 'law':
        for k in ('s', 't'):
            if k in case:
                for s2 in _shrunk_strings(case[k]):
                    yield dict(case, **{k: s2})


# ------------------------------------------------------------------ workload
def g_str_operand(r, profile, allow_empty_seq=True, **kw):
    if allow_empty_seq and r.random() < 0.04:
        return ['e']
    return ['s', g_string(r, profile, **kw)]


def g_fo_case(r, fn):
    ver = r.choice(VERSIONS)
    coll = None
    profile = r.choice(['ascii', 'ws', 'ws10', 'astral', 'case', 'uri', 'mixed', 'small', 'mixed', 'small'])
    if fn == 'substring':
        s = g_str_operand(r, r.choice(['ascii', 'astral', 'mixed', 'small']))
        n = len(s[1]) if s[0] == 's' else 0
        args = [s, g_number(r, n)]
        if r.random() < 0.65:
            args.append(g_number(r, n, nonneg=r.random() < 0.85))
        if r.random() < 0.01:
            args[r.randrange(1, len(args))] = ['e']
    elif fn in COLLFN or fn in ('compare', 'codepoint-equal'):
        if fn != 'codepoint-equal':
            x = r.random()
            if x < 0.15:
                coll = 'cp'
            elif x < 0.40:
                coll, ver = 'haci', '3.1'
                profile = r.choice(['case', 'case', 'ascii', 'small', 'mixed'])
            elif x < 0.41:
                coll = 'unknown'
        a = g_str_operand(r, profile)
        b = ['e'] if r.random() < 0.04 else ['s', g_second(r, a[1] if a[0] == 's' else '', profile)]
        if fn in ('compare', 'codepoint-equal') and a[0] == 's' and b[0] == 's' and r.random() < 0.3:
            # near-equal strings: differ at one place / by length
            t = a[1]
            if t and r.random() < 0.6:
                k = r.randrange(len(t))
                t = t[:k] + r.choice(ASCII + ASTRAL + BOUNDARY + CASE_SPECIAL) + t[k + 1:]
            elif r.random() < 0.5:
                t = t + r.choice(ASCII + ASTRAL)
            b = ['s', t]
        args = [a, b]
    elif fn == 'translate':
        s = g_str_operand(r, r.choice(['small', 'ascii', 'astral', 'mixed']))
        pool = sorted(set(s[1])) if s[0] == 's' and s[1] else ['a']
        pool = pool + ['a', 'b', '\U0001F600', 'A']
        m = ''.join(r.choice(pool) for _ in range(r.randint(0, 5)))
        t = ''.join(r.choice(['x', 'y', '\u00e9', '\U0001D11E', 'a', 'b']) for _ in range(r.randint(0, 6)))
        args = [s, ['s', m], ['s', t]]
        if r.random() < 0.01:
            args[r.randrange(1, 3)] = ['e']
    elif fn == 'normalize-space':
        args = [g_str_operand(r, r.choice(['ws', 'ws', 'ws10', 'mixed']))]
    elif fn in ('upper-case', 'lower-case'):
        args = [g_str_operand(r, r.choice(['case', 'case', 'mixed', 'astral']))]
    elif fn in ('encode-for-uri', 'iri-to-uri', 'escape-html-uri'):
        args = [g_str_operand(r, r.choice(['uri', 'uri', 'mixed', 'ws10']))]
    elif fn in ('string-length', 'string-to-codepoints'):
        args = [g_str_operand(r, profile)]
    elif fn == 'concat':
        args = []
        for _ in range(r.choice([2, 2, 3, 4, 6])):
            x = r.random()
            if x < 0.6:
                args.append(g_str_operand(r, profile, maxlen=5))
            elif x < 0.7:
                args.append(['i', r.choice([0, -1, 7, 12345678901234567890, -300])])
            elif x < 0.8:
                args.append(['dec', r.choice(['1.50', '-0.5', '100', '0.000001', '12345.678', '0.0', '1E+3'])])
            elif x < 0.9:
                args.append(['d', fmt_d(r.choice([1.5, -2.0, 0.0, -0.0, math.inf, -math.inf, math.nan, 100000.0,
                                                  999999.5, 0.000001, 0.001, 12.25, 1e6, 1e21, 1.5e-7, -1.25e10]))])
            else:
                args.append(['b', r.random() < 0.5])
    elif fn == 'codepoints-to-string':
        x = r.random()
        if x < 0.7:
            cps = [ord(c) for c in g_string(r, r.choice(XML_SAFE_PROFILES))]
        else:
            cps = [ord(c) for c in g_string(r, 'ascii', maxlen=3)]
            bad = r.choice([0, 1, 8, 0xB, 0xC, 0xE, 0x1F, 0xD800, 0xDFFF, 0xFFFE, 0xFFFF, 0x110000, -1, 9, 0xA, 0xD,
                            0x20, 0xD7FF, 0xE000, 0xFFFD, 0x10000, 0x10FFFF, 2 ** 31, 2 ** 64])
            cps.insert(r.randint(0, len(cps)), bad)
        args = [['il', cps]]
    else:
        raise ValueError(fn)
    c = {'fn': fn, 'ver': ver, 'args': args}
    if coll is not None:
        c['coll'] = coll
    return c


XP1_NUMS = [1.5, -2.0, 0.0, -0.0, math.inf, -math.inf, math.nan, 12345.0, 0.5, 100000.0, 0.001, 0.00001,
            123456.789, 2147483647.0, 1e21, 1.5e-7, -0.25]


def g_xp1_case(r, fn):
    profile = r.choice(XML_SAFE_PROFILES + ['small'])

    def sop(p=profile, **kw):
        x = r.random()
        if x < 0.04:
            return ['d', fmt_d(r.choice(XP1_NUMS))]
        if x < 0.06:
            return ['b', r.random() < 0.5]
        return ['s', g_string(r, p, **kw)]
    if fn == 'substring':
        s = sop(r.choice(['ascii', 'astral', 'mixed', 'small']))
        n = len(s[1]) if s[0] == 's' else 5
        args = [s, g_number(r, n, kinds=('d',))]
        if r.random() < 0.65:
            args.append(g_number(r, n, kinds=('d',), nonneg=r.random() < 0.85))
        if r.random() < 0.04:
            args[r.randrange(1, len(args))] = r.choice([['s', '2'], ['s', ' 2.5 '], ['s', 'x'], ['s', ''],
                                                        ['b', True], ['b', False], ['s', '-1'], ['s', '1e1']])
    elif fn in ('substring-before', 'substring-after', 'contains', 'starts-with'):
        a = sop()
        b = ['s', g_second(r, a[1] if a[0] == 's' else 'true', profile)]
        args = [a, b]
    elif fn == 'translate':
        s = sop(r.choice(['small', 'ascii', 'astral', 'mixed']))
        pool = (sorted(set(s[1])) if s[0] == 's' and s[1] else ['a']) + ['a', 'b', '\U0001F600', 'A']
        m = ''.join(r.choice(pool) for _ in range(r.randint(0, 5)))
        t = ''.join(r.choice(['x', 'y', '\u00e9', '\U0001D11E', 'a', 'b']) for _ in range(r.randint(0, 6)))
        args = [s, ['s', m], ['s', t]]
    elif fn == 'normalize-space':
        args = [sop(r.choice(['ws', 'ws', 'mixed']))]
    elif fn == 'string-length':
        args = [sop()]
    elif fn == 'concat':
        args = [sop(maxlen=5) for _ in range(r.choice([2, 2, 3, 4, 6]))]
    else:
        raise ValueError(fn)
    return {'fn': fn, 'args': args}


def g_law_case(r):
    ver = r.choice(['1.0', '2.0', '3.0', '3.1'])
    profile = r.choice(XML_SAFE_PROFILES + ['small', 'small'])
    s = g_string(r, profile)
    if ver != '1.0' and r.random() < 0.35:
        return {'law': 'roundtrip', 'ver': ver, 's': s}
    return {'law': 'reconstruct', 'ver': ver, 's': s, 't': g_second(r, s, profile)}


FO_BUDGET = {'substring': 14400, 'substring-before': 4000, 'substring-after': 4000, 'contains': 3200,
             'starts-with': 3200, 'ends-with': 3200, 'translate': 4800, 'normalize-space': 3200,
             'string-length': 1900, 'upper-case': 1900, 'lower-case': 1900, 'concat': 4000, 'compare': 4800,
             'codepoint-equal': 2400, 'string-to-codepoints': 1900, 'codepoints-to-string': 3200,
             'encode-for-uri': 2400, 'iri-to-uri': 2400, 'escape-html-uri': 2400}
XP1_BUDGET = {'substring': 8000, 'substring-before': 2400, 'substring-after': 2400, 'contains': 1900,
              'starts-with': 1900, 'translate': 3200, 'normalize-space': 2400, 'string-length': 1600,
              'concat': 2400}

PINNED = [
    ('fo', {'fn': 'substring', 'ver': '3.1', 'args': [['s', '12345'], ['d', '1.5'], ['d', '2.6']]}),
    ('fo', {'fn': 'substring', 'ver': '2.0', 'args': [['s', '12345'], ['d', '2.5']]}),
    ('fo', {'fn': 'substring', 'ver': '3.1', 'args': [['s', '12345'], ['d', '-INF'], ['d', 'INF']]}),
    ('fo', {'fn': 'substring', 'ver': '3.1', 'args': [['s', '12345'], ['d', '-INF']]}),
    ('fo', {'fn': 'substring', 'ver': '3.1', 'args': [['s', '12345'], ['i', 0], ['i', 3]]}),
    ('fo', {'fn': 'normalize-space', 'ver': '3.1', 'args': [['s', ' a  b ']]}),
    ('fo', {'fn': 'translate', 'ver': '3.1', 'args': [['s', 'bar'], ['s', 'abc'], ['s', 'ABC']]}),
    ('fo', {'fn': 'translate', 'ver': '3.1', 'args': [['s', '--aaa--'], ['s', 'abc-'], ['s', 'ABC']]}),
    ('fo', {'fn': 'compare', 'ver': '3.1', 'coll': 'haci', 'args': [['s', 'Strasse'], ['s', 'STRASSE']]}),
    ('xp1', {'fn': 'substring', 'args': [['s', '12345'], ['d', '1.5'], ['d', '2.6']]}),
    ('xp1', {'fn': 'substring', 'args': [['s', '12345'], ['d', '0.0'], ['d', '3.0']]}),
    ('law', {'law': 'reconstruct', 'ver': '3.1', 's': 'abcabc', 't': 'bc'}),
    # minimal witnesses of the mechanisms seen on the pinned tree (kept so that they are exercised in every run)
    ('fo', {'fn': 'substring', 'ver': '3.1', 'args': [['s', '12345'], ['d', '0.5'], ['d', '2.5']]}),
    ('xp1', {'fn': 'substring', 'args': [['s', '12345'], ['d', '2.5']]}),
    ('xp1', {'fn': 'substring', 'args': [['s', '12345'], ['d', '-INF']]}),
    ('xp1', {'fn': 'substring', 'args': [['s', '12345'], ['s', '2']]}),
    ('fo', {'fn': 'translate', 'ver': '3.1', 'args': [['s', 'abc'], ['s', 'aa'], ['s', 'xy']]}),
    ('fo', {'fn': 'normalize-space', 'ver': '3.1', 'args': [['s', 'a\u00a0b']]}),
    ('fo', {'fn': 'compare', 'ver': '3.1', 'coll': 'haci', 'args': [['s', '\u212a'], ['s', 'k']]}),
    ('fo', {'fn': 'contains', 'ver': '3.1', 'coll': 'haci', 'args': [['s', '\u00df'], ['s', 'ss']]}),
    ('fo', {'fn': 'concat', 'ver': '3.1', 'args': [['d', '1e-06'], ['s', '']]}),
    ('xp1', {'fn': 'concat', 'args': [['d', 'INF'], ['s', '']]}),
    ('xp1', {'fn': 'concat', 'args': [['d', '-0.0'], ['s', '']]}),
    ('xp1', {'fn': 'concat', 'args': [['d', '1e-05'], ['s', '']]}),
]


def g_reuse_case(r, fn):
    """three argument sets of one call shape; the later sets differ from the first in ONE argument only (a cache keyed
    on some of the arguments shows when the others change)"""
    base = g_fo_case(r, fn)
    sets = [base['args']]
    for _ in range(40):
        if len(sets) == 3:
            break
        other = g_fo_case(r, fn)
        if len(other['args']) != len(base['args']) or other.get('coll') != base.get('coll'):
            continue
        i = r.randrange(len(base['args'])) if base['args'] else 0
        args = list(base['args'])
        if args:
            args[i] = other['args'][i]
        sets.append(args)
    case = {'fn': fn, 'ver': base['ver'], 'coll': base.get('coll'), 'argsets': sets}
    if r.random() < 0.6 and base['args']:
        case['literal'] = sorted(r.sample(range(len(base['args'])), r.randint(1, len(base['args']))))
    return case


def run(h):
    r = h.rng
    for kind, case in PINNED:
        h.case(kind, case)
    for fn in FO_FUNCTIONS:
        for _ in range(h.n(FO_BUDGET[fn])):
            h.case('fo', g_fo_case(r, fn))
    for fn in XP1_FUNCTIONS:
        for _ in range(h.n(XP1_BUDGET[fn])):
            h.case('xp1', g_xp1_case(r, fn))
    for _ in range(h.n(6000)):
        h.case('law', g_law_case(r))
    for fn in FO_FUNCTIONS:
        for _ in range(h.n(40)):
            h.case('reuse', g_reuse_case(r, fn))


def floors(v):
    reasons = []
    for fn in FO_FUNCTIONS:
        if v.got('fo_function', fn) < 200:
            reasons.append('fewer than 200 model comparisons for %s' % fn)
    for fn in XP1_FUNCTIONS:
        if v.got('xp1_function', fn) < 100:
            reasons.append('fewer than 100 XPath 1.0 cases for %s' % fn)
    if v.got('reuse_evaluations', 'later') < 1000:
        reasons.append('fewer than 1000 later evaluations of a reused expression')
    if v.got('reuse_literal_argument') < 30:
        reasons.append('fewer than 30 literal arguments in reused expressions')
    if v.got('oracle_comparisons', 'libxml2') < 2000:
        reasons.append('fewer than 2000 libxml2 comparisons')
    for c in ('half-even-floor', 'half-odd-floor', 'neg-half-odd-floor', 'INF', '-INF', 'NaN', 'fraction', 'integral'):
        if v.got('substring_start', c) < 20:
            reasons.append('substring start class %s seen fewer than 20 times' % c)
    for c in ('astral', 'nonxml-ws', 'combining', 'cased-nonascii', 'empty', 'empty-sequence', 'uri-reserved'):
        if v.got('string_class', c) < 100:
            reasons.append('string class %s seen fewer than 100 times' % c)
    for c in ('haci', 'cp', 'default'):
        if v.got('collation', c) < 100:
            reasons.append('collation %s exercised fewer than 100 times' % c)
    if v.got('law_reconstruct', 'contains-true') < 200:
        reasons.append('before+t+after law decided fewer than 200 times')
    if v.got('law') - v.got('law_reconstruct') < 100:
        reasons.append('code-point round trip law checked fewer than 100 times')
    return reasons
