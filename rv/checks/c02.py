"""C02 - node trees are faithful, strictly document-ordered images of the input XML; the identity/order
operators are consistent with that image.

Monitor: structural invariants asserted at the quiescent point after the tree is built (and after its lazy
parts were materialised in different orders), against the neutral document spec; plus operator results
against the set model over the spec's document order."""
import copy

from ..core import Outcome
from ..engine import call, PARSERS
from .. import gen_xml
from ..gen_xml import NS_POOL
from ..models import xdm

from elementpath import XPathContext, get_node_tree
from elementpath.xpath_nodes import XPathNode, DocumentNode, ElementNode, AttributeNode, NamespaceNode, \
    TextNode, CommentNode, ProcessingInstructionNode

PROPERTY = 'C02'
LEVEL = 'exploration'
RULE = ('random documents (<= 60 nodes; namespace declarations at any depth, 0-3 attributes, comments/PIs, document-level '
        'siblings for lxml, empty-string text for ElementTree) x {ElementTree, lxml} x {Element, ElementTree root} x '
        'fragment in {None, True, False} x 6 namespaces arguments (ElementTree) x 4 orders of materialising the lazy '
        'namespace/attribute nodes; a case is non-trivial when the tree has at least one attribute or namespace '
        'declaration and 3 nodes; distinct by canonical JSON of (document, configuration).')
ASSUMPTIONS = [
    'the neutral spec (rv/gen_xml.py) is the ground truth; lxml twins are parsed from its serialisation',
    'ElementTree in-scope namespaces are the `namespaces` argument (plus xml) on every element; lxml uses nsmap',
    'relative order of the namespace nodes of one element is not constrained, only that they sit between the element and its attributes',
    'attribute order = source order',
]

XML_NS = xdm.XML_NS
NS_ARGS = {
    'none': None,
    'empty': {},
    'two': {'p1': 'urn:a', 'p2': 'urn:b'},
    'pool': dict(NS_POOL),
    'xml-first': {'xml': XML_NS, 'p1': 'urn:a', 'p2': 'urn:b'},
    'xml-last': {'p1': 'urn:a', 'xml': XML_NS},
    'default': {'': 'urn:d', 'p1': 'urn:a'},
}
ORDERS = ['ns-first', 'attr-first', 'iter', 'select', 'interleaved']


class Broken(Exception):
    def __init__(self, key, detail):
        self.key, self.detail = key, detail


def expected_shape(case, spec):
    """-> (has_doc, with_misc)"""
    lib, root, frag = case['lib'], case['root'], case['fragment']
    if lib == 'et':
        if frag is True:
            return False, False
        if root == 'tree':
            return True, False
        return (frag is False), False
    if frag is True:
        return False, False
    if root == 'tree':
        return True, True
    if frag is False or spec['pre'] or spec['post']:
        return True, True
    return False, False


def materialise(root_node, order, nsarg):
    """touch the lazy parts of the tree in a given order"""
    elems = []

    def walk(n):
        if isinstance(n, ElementNode):
            elems.append(n)
        for ch in (n.children if isinstance(n, (ElementNode, DocumentNode)) else []):
            walk(ch)
    walk(root_node)
    if order == 'ns-first':
        for e in elems:
            e.namespace_nodes
        for e in reversed(elems):
            e.attributes
    elif order == 'attr-first':
        for e in reversed(elems):
            e.attributes
        for e in elems:
            e.namespace_nodes
    elif order == 'iter':
        list(root_node.iter())
    elif order == 'select':
        ctx = XPathContext(root=root_node, namespaces=nsarg)
        for expr in ('//@*', '//namespace::*', '//node()'):
            tok = PARSERS['2.0'](namespaces=NS_POOL).parse(expr)
            list(tok.select(ctx))
    else:
        for i, e in enumerate(elems):
            if i % 2:
                e.attributes
                e.namespace_nodes
            else:
                e.namespace_nodes
                e.attributes


def verify_tree(root_node, table, twin, case, out):
    """walk the engine tree against the model table; returns [(engine node, model node)] in model document order"""
    pairs = []
    kinds = {'doc': DocumentNode, 'elem': ElementNode, 'text': TextNode, 'comment': CommentNode,
             'pi': ProcessingInstructionNode}

    def check_children(en, mn):
        ech = list(en.children)
        if len(ech) != len(mn.children):
            raise Broken('C02/structure/children-count/%s' % mn.kind,
                         'children of %r: engine %s vs model %s' % (mn, [type(c).__name__ for c in ech],
                                                                    [c.kind for c in mn.children]))
        for ec, mc in zip(ech, mn.children):
            if ec.parent is not en:
                raise Broken('C02/links/child-parent/%s' % mc.kind, 'child %r of %r has parent %r' % (mc, mn, ec.parent))
            walk(ec, mc)

    def walk(en, mn):
        if not isinstance(en, kinds[mn.kind]):
            raise Broken('C02/structure/node-kind/%s' % mn.kind, '%r is a %s' % (mn, type(en).__name__))
        pairs.append((en, mn))
        if mn.kind == 'doc':
            check_children(en, mn)
        elif mn.kind == 'elem':
            if en.name != mn.name:
                raise Broken('C02/structure/element-name', '%r has name %r' % (mn, en.name))
            obj = twin.objs[mn.ref]
            if en.value is not obj:
                raise Broken('C02/structure/wrapped-object/element', '%r does not wrap its input element' % mn)
            ens = list(en.namespace_nodes)
            got = sorted((x.prefix or '', x.uri) for x in ens)
            want = sorted((x.name, x.value) for x in mn.nss)
            if got != want:
                raise Broken('C02/structure/namespace-nodes', '%r: engine %s vs model %s' % (mn, got, want))
            byp = {(x.prefix or ''): x for x in ens}
            for ns in mn.nss:
                x = byp[ns.name]
                if x.parent is not en:
                    raise Broken('C02/links/namespace-parent', '%r' % mn)
                pairs.append((x, ns))
            eat = list(en.attributes)
            if [(a.name, a.value) for a in eat] != [(a.name, a.value) for a in mn.attrs]:
                raise Broken('C02/structure/attributes', '%r: engine %s vs model %s' % (
                    mn, [(a.name, a.value) for a in eat], [(a.name, a.value) for a in mn.attrs]))
            for a, ma in zip(eat, mn.attrs):
                if a.parent is not en:
                    raise Broken('C02/links/attribute-parent', '%r' % mn)
                pairs.append((a, ma))
            check_children(en, mn)
        elif mn.kind == 'text':
            if en.value != mn.value:
                raise Broken('C02/structure/text-content', '%r: %r' % (mn, en.value))
        elif mn.kind == 'comment':
            if (en.string_value or '') != (mn.value or ''):
                raise Broken('C02/structure/comment-content', '%r: %r' % (mn, en.string_value))
            if en.value is not twin.objs.get(mn.ref):
                raise Broken('C02/structure/wrapped-object/comment', '%r' % mn)
        elif mn.kind == 'pi':
            if en.name != mn.name or (en.string_value or '') != (mn.value or ''):
                raise Broken('C02/structure/pi-content', '%r: target %r content %r' % (mn, en.name, en.string_value))
    walk(root_node, table.root)
    if root_node.parent is not None:
        raise Broken('C02/links/root-has-parent', repr(root_node.parent))
    return pairs


def verify_positions(pairs, table, root_node):
    """positions unique and strictly increasing in document order (ns nodes of one element in any order)"""
    pos = {}
    for en, mn in pairs:
        p = getattr(en, 'position', None)
        if not isinstance(p, int):
            raise Broken('C02/position/missing/%s' % mn.kind, '%r has position %r' % (mn, p))
        pos[mn.id] = p
    seen = {}
    for mid, p in pos.items():
        if p in seen:
            a, b = table.nodes[seen[p]], table.nodes[mid]
            raise Broken('C02/position/duplicate/%s~%s' % tuple(sorted((a.kind, b.kind))),
                         '%r and %r share position %d' % (a, b, p))
        seen[p] = mid
    last = None
    i = 0
    nodes = table.nodes
    while i < len(nodes):
        mn = nodes[i]
        if mn.kind == 'ns':
            j = i
            while j < len(nodes) and nodes[j].kind == 'ns' and nodes[j].parent is mn.parent:
                j += 1
            group = sorted(pos[x.id] for x in nodes[i:j])
            if last is not None and group[0] <= last[1]:
                raise Broken('C02/position/order/%s-then-ns' % last[0].kind,
                             'namespace nodes of %r start at %d, not after %r at %d' % (mn.parent, group[0], last[0], last[1]))
            last = (nodes[j - 1], group[-1])
            i = j
            continue
        p = pos[mn.id]
        if last is not None and p <= last[1]:
            raise Broken('C02/position/order/%s-then-%s' % (last[0].kind, mn.kind),
                         '%r at %d does not follow %r at %d' % (mn, p, last[0], last[1]))
        last = (mn, p)
        i += 1
    # iter() yields exactly these nodes in increasing position order
    it = list(root_node.iter())
    ids = {id(en) for en, _ in pairs}
    if len(it) != len(pairs) or {id(x) for x in it} != ids:
        raise Broken('C02/iter/node-set', 'iter() yields %d nodes, the tree has %d' % (len(it), len(pairs)))
    ps = [x.position for x in it]
    if any(b <= a for a, b in zip(ps, ps[1:])):
        raise Broken('C02/iter/order', 'iter() positions not strictly increasing: %s' % ps[:20])
    return pos


def verify_values(pairs, table):
    for en, mn in pairs:
        if mn.kind in ('elem', 'doc'):
            want = table.string_value(mn)
            got = en.string_value
            if got != want:
                raise Broken('C02/string-value/%s' % mn.kind, '%r: %r expected %r' % (mn, got, want))
        elif mn.kind == 'attr':
            if en.string_value != mn.value:
                raise Broken('C02/string-value/attr', '%r' % mn)


def verify_elements_map(root_node, pairs, table, twin):
    tree = getattr(root_node, 'tree', None)
    elements = getattr(tree, 'elements', None) if tree is not None else getattr(root_node, 'elements', None)
    if elements is None:
        raise Broken('C02/elements-map/missing', 'no elements map')
    want = {}
    for en, mn in pairs:
        if mn.kind in ('elem', 'comment', 'pi'):
            want[id(twin.objs[mn.ref])] = en
    got = {id(k): v for k, v in elements.items()}
    for k, en in want.items():
        if got.get(k) is not en:
            raise Broken('C02/elements-map/wrong-or-missing-entry', 'wrapped object of %r' % type(en).__name__)
    extra = [k for k in got if k not in want]
    if extra:
        kinds = sorted({type(got[k]).__name__ for k in extra})
        raise Broken('C02/elements-map/extra-keys', '%d extra keys: %s' % (len(extra), kinds))


# ------------------------------------------------------------------ operators
def node_label(table, mn):
    return '%s#%d' % (mn.kind, mn.id)


def check_operators(case, root_node, pairs, table, pos, out):
    nsarg = NS_ARGS[case['nsarg']] if case['lib'] == 'et' else None
    by_id = {mn.id: en for en, mn in pairs}
    ops = case.get('ops', [])
    for op in ops:
        kind = op[0]
        try:
            if kind == 'pair':
                a, b = table.nodes[op[1]], table.nodes[op[2]]
                ea, eb = by_id[a.id], by_id[b.id]
                same_ns_group = a.kind == 'ns' and b.kind == 'ns' and a.parent is b.parent and a is not b
                for sym, want in (('is', a is b), ('<<', a.id < b.id), ('>>', a.id > b.id)):
                    if same_ns_group and sym != 'is':
                        want = (pos[a.id] < pos[b.id]) if sym == '<<' else (pos[a.id] > pos[b.id])
                    res = ev('$a %s $b' % sym, root_node, nsarg, {'a': ea, 'b': eb})
                    out.dim('operator', sym)
                    if res[0] != 'ok' or res[1] is not want:
                        out.fail('C02/operator/%s/%s~%s' % (sym, a.kind, b.kind),
                                 '$a %s $b with a=%r b=%r -> %r expected %r' % (sym, a, b, short(res), want))
            elif kind == 'sets':
                A = [table.nodes[i] for i in op[1]]
                B = [table.nodes[i] for i in op[2]]
                va = [by_id[m.id] for m in A]
                vb = [by_id[m.id] for m in B]
                sa, sb = {m.id for m in A}, {m.id for m in B}
                for sym, want in (('union', sa | sb), ('|', sa | sb), ('intersect', sa & sb), ('except', sa - sb)):
                    res = ev('$A %s $B' % sym, root_node, nsarg, {'A': va, 'B': vb})
                    out.dim('operator', sym)
                    check_nodes(out, 'C02/operator/%s' % sym.replace('|', 'union'), res, sorted(want), pairs, table, pos,
                                '$A %s $B A=%s B=%s' % (sym, sorted(sa), sorted(sb)))
            elif kind == 'root':
                m = table.nodes[op[1]]
                res = ev('root($n)', root_node, nsarg, {'n': by_id[m.id]})
                out.dim('operator', 'root')
                check_nodes(out, 'C02/function/root', res, [table.root.id], pairs, table, pos, 'root(%r)' % m)
            elif kind == 'most':
                S = [table.nodes[i] for i in op[1]]
                vs = [by_id[m.id] for m in S]
                ids = {m.id for m in S}

                def is_anc(x, y):     # x ancestor of y
                    p = y.parent
                    while p is not None:
                        if p is x:
                            return True
                        p = p.parent
                    return False
                inner = sorted(m.id for m in S if not any(is_anc(m, o) for o in S))
                outer = sorted(m.id for m in S if not any(is_anc(o, m) for o in S))
                for fn, want in (('innermost', inner), ('outermost', outer)):
                    res = ev('%s($S)' % fn, root_node, nsarg, {'S': vs})
                    out.dim('operator', fn)
                    check_nodes(out, 'C02/function/%s' % fn, res, sorted(set(want)), pairs, table, pos,
                                '%s(%s)' % (fn, sorted(ids)))
        except KeyError:
            continue


def short(res):
    return res if res[0] != 'ok' else ('ok', res[1] if isinstance(res[1], bool) else type(res[1]).__name__)


def ev(expr, root_node, nsarg, variables):
    def run():
        parser = PARSERS['3.1'](namespaces=NS_POOL)
        tok = parser.parse(expr)
        ctx = XPathContext(root=root_node, namespaces=nsarg, variables=variables)
        v = tok.evaluate(ctx)
        return v
    return call(run)


def check_nodes(out, key, res, want_ids, pairs, table, pos, what):
    if res[0] != 'ok':
        out.fail(key + '/raised', '%s -> %r' % (what, res))
        return
    val = res[1]
    if not isinstance(val, list):
        val = [val]
    rev = {id(en): mn.id for en, mn in pairs}
    got = [rev.get(id(x), 'foreign:%s' % type(x).__name__) for x in val]
    if len(set(map(str, got))) != len(got):
        out.fail(key + '/duplicates', '%s -> %s' % (what, got))
    elif sorted(map(str, got)) != sorted(map(str, want_ids)):
        out.fail(key + '/members', '%s -> %s expected %s' % (what, got, want_ids))
    else:
        # document order (namespace nodes of one element by engine position)
        ps = [pos[i] for i in got]
        if any(b <= a for a, b in zip(ps, ps[1:])):
            out.fail(key + '/order', '%s -> %s not in document order' % (what, got))


# ------------------------------------------------------------------ case
def build(case):
    spec = case['doc']
    twin = gen_xml.build_et(spec) if case['lib'] == 'et' else gen_xml.build_lxml(spec)
    root_obj = twin.tree if case['root'] == 'tree' else twin.root_elem
    has_doc, with_misc = expected_shape(case, spec)
    nsarg = NS_ARGS[case['nsarg']] if case['lib'] == 'et' else None
    table = xdm.Table(spec, 'doc' if has_doc else 'elem', 'lxml' if case['lib'] == 'lxml' else 'et',
                      nsarg or {}, with_misc)
    return twin, root_obj, nsarg, table


def check_case(kind, case):
    out = Outcome()
    twin, root_obj, nsarg, table = build(case)
    if case.get('via') == 'context':
        r = call(lambda: XPathContext(root_obj, namespaces=nsarg, fragment=case['fragment']).root)
    else:
        r = call(get_node_tree, root_obj, nsarg, None, case['fragment'])
    cfg = '%s/%s/frag=%s' % (case['lib'], case['root'], case['fragment'])
    out.dim('config', cfg)
    out.dim('nsarg', case['nsarg'] if case['lib'] == 'et' else 'lxml-nsmap')
    out.dim('order', case['order'])
    if r[0] != 'ok':
        out.fail('C02/build/%s/%s' % (r[1], r[2] if len(r) > 2 else ''), '%s: %r' % (cfg, r))
        return out
    root_node = r[1]
    try:
        materialise(root_node, case['order'], nsarg)
        pairs = verify_tree(root_node, table, twin, case, out)
        out.dim('nodes_verified', case['lib'], len(pairs))
        pos = verify_positions(pairs, table, root_node)
        verify_values(pairs, table)
        verify_elements_map(root_node, pairs, table, twin)
    except Broken as b:
        out.fail(b.key, '%s order=%s nsarg=%s: %s' % (cfg, case['order'], case['nsarg'], b.detail))
        return out
    check_operators(case, root_node, pairs, table, pos, out)
    n_attr = sum(1 for _, m in pairs if m.kind == 'attr')
    n_decl = sum(1 for _, m in pairs if m.kind == 'ns' and m.name != 'xml')
    out.nontrivial = len(pairs) >= 3 and (n_attr > 0 or n_decl > 0)
    out.obs = '%s %d nodes (%d attributes, %d non-xml namespace nodes), %d operator probes' % (
        cfg, len(pairs), n_attr, n_decl, len(case.get('ops', [])))
    return out


def g_case(r):
    lib = r.choice(['et', 'lxml'])
    spec = gen_xml.gen_doc(r, max_nodes=r.choice([4, 10, 25, 60]), doc_misc=(lib == 'lxml'),
                           empty_text=(lib == 'et'))
    case = {'doc': spec, 'lib': lib, 'root': r.choice(['elem', 'tree']), 'fragment': r.choice([None, None, True, False]),
            'nsarg': r.choice(sorted(NS_ARGS)), 'order': r.choice(ORDERS), 'via': r.choice(['get_node_tree', 'context'])}
    twin, root_obj, nsarg, table = build(case)
    ids = list(range(len(table.nodes)))
    ops = []
    for _ in range(4):
        ops.append(['pair', r.choice(ids), r.choice(ids)])
    # a pair close together (adjacent in document order) is where position bookkeeping errors show
    k = r.choice(ids)
    ops.append(['pair', k, min(k + 1, len(ids) - 1)])
    for _ in range(2):
        ops.append(['sets', r.sample(ids, min(len(ids), r.randint(0, 5))), r.sample(ids, min(len(ids), r.randint(0, 5)))])
    ops.append(['root', r.choice(ids)])
    ops.append(['most', r.sample(ids, min(len(ids), r.randint(1, 6)))])
    case['ops'] = ops
    return case


def run(h):
    r = h.rng
    for _ in range(h.n(9000)):
        h.case('tree', g_case(r))


def shrink(kind, case):
    # fewer operator probes
    ops = case.get('ops', [])
    if len(ops) > 1:
        for o in ops:
            c = dict(case)
            c['ops'] = [o]
            yield c
    # smaller document (operator probes refer to node ids: drop them when the document changes)
    def variants(e, prefix):
        for i in range(len(e['c'])):
            yield prefix + (i,)
            if e['c'][i]['k'] == 'e':
                yield from variants(e['c'][i], prefix + (i,))
    if not ops or len(ops) > 1 or True:
        for pth in list(variants(case['doc']['root'], ())):
            c = copy.deepcopy(case)
            c['ops'] = []
            e = c['doc']['root']
            for k in pth[:-1]:
                e = e['c'][k]
            del e['c'][pth[-1]]
            cc = e['c']
            if any(cc[k]['k'] == 't' and cc[k + 1]['k'] == 't' for k in range(len(cc) - 1)):
                continue
            yield c
        for key in ('pre', 'post'):
            if case['doc'][key]:
                c = copy.deepcopy(case)
                c['ops'] = []
                c['doc'][key] = []
                yield c


def floors(v):
    reasons = []
    if v.got('nodes_verified') < 10000:
        reasons.append('fewer than 10000 nodes verified')
    for o in ORDERS:
        if v.got('order', o) < 50:
            reasons.append('materialisation order %s used fewer than 50 times' % o)
    for sym in ('is', '<<', '>>', 'union', 'intersect', 'except', 'root', 'innermost', 'outermost'):
        if v.got('operator', sym) < 100:
            reasons.append('operator %s evaluated fewer than 100 times' % sym)
    if v.got('config') < 500:
        reasons.append('fewer than 500 tree configurations')
    return reasons
