"""C18 - sequence-type judgements are sound.

Three case kinds:
  judge    (V, T): `V instance of T`, `V treat as T` and match_sequence_type(V, T) against the
           reference matcher of rv/models/seqtype.py; V is built through typed constructors so its
           dynamic type is known; T is rendered with random optional whitespace.
  subtype  three sequence types + witness values: the engine's relation (is_sequence_type_restriction)
           must be reflexive, transitive and sound for matching.
  sig      one call of a registered built-in function signature with arguments generated from the
           declared parameter types; every successful return must match the declared return type.
"""
import xml.etree.ElementTree as ET
from decimal import Decimal

from ..core import Outcome
from .. import engine as E
from ..models import seqtype as M

from elementpath import XPathContext, get_node_tree
from elementpath import datatypes as dt
from elementpath.sequence_types import match_sequence_type, is_sequence_type_restriction
from elementpath.xpath_nodes import XPathNode
from elementpath.xpath_tokens import XPathMap, XPathArray, XPathFunction

PROPERTY = 'C18'
LEVEL = 'exploration'
RULE = ('judge: a value (atomic values of all built-in types through typed constructors, nodes of the 7 kinds '
        'of an untyped tree, inline/named/partial function items, maps, arrays, sequences of 0..3 items) x a '
        'sequence type derived from the value (exact / ancestor / child / sibling type, name and type-argument '
        'variations of kind tests, co-/contra-variant perturbations of function tests, map/array tests, all '
        'occurrence indicators) rendered with random optional whitespace; non-trivial when the model decides and '
        'the engine produced a judgement; distinct by canonical JSON. subtype: triples of neighbouring types with '
        'witness values. sig: every (qname, arity) of parser.function_signatures of the 2.0/3.0/3.1 parsers, '
        'arguments generated from the declared parameter types (static call, dynamic call through a named '
        'function reference, parser.get_function); non-trivial when the call succeeded.')
ASSUMPTIONS = [
    'values carry ground-truth type labels because they are built through typed constructors; a case whose '
    'constructor yields a differently labelled object is counted as undecided, not judged',
    'function results are labelled by the exact Python class the library returns (Int -> xs:int, float -> xs:double ...)',
    'nodes come from one untyped tree (no schema): elements are xs:untyped, attributes xs:untypedAtomic',
    'function tests on maps/arrays with a return type other than item()* are not decided (XPath 3.1 is '
    'inconsistent between 2.5.5.8 and subtype rule map(K,V) <: function(xs:anyAtomicType) as V?)',
    'the declared return type of a built-in function is the one registered in parser.function_signatures',
    'xs:numeric only under XPath 3.1; xs:dateTimeStamp / xs:error (XSD 1.1) and schema types are not generated',
]

NS = {'p': 'urn:p'}
PREFIXES = {'urn:p': 'p', M.FN_NS: 'fn', M.OUTPUT_NS: 'output', 'http://www.w3.org/XML/1998/namespace': 'xml'}
SRC = ('<!--pre--><r xmlns:p="urn:p" a="1" p:b="2" xml:lang="en" xml:id="x"><a>t</a><p:c>7</p:c><!--c-->'
       '<?tgt x?><a><a/></a></r>')
_TREE = None


def node_tree():
    global _TREE
    if _TREE is None:
        tb = ET.TreeBuilder(insert_comments=True, insert_pis=True)
        pr = ET.XMLParser(target=tb)
        pr.feed(SRC)
        root = pr.close()
        _TREE = get_node_tree(ET.ElementTree(root), namespaces=NS)
    return _TREE


_PIQ = [False]        # judge with quoted PI targets (classification only)
_REL = [False]        # relative-operand mode: node operands are written relative to the context item /r


def rel_path(path):
    if path == '/':
        return '/'
    if path == '/r':
        return '.'
    return path[3:] if path.startswith('/r/') else path


def evalx(expr, ver, variables=None, item=None):
    parser = E.PARSERS[ver](namespaces=NS)
    tok = parser.parse(expr)
    if item is None and _REL[0]:
        item = [c for c in node_tree() if getattr(c, 'node_kind', '') == 'element'][0]
    ctx = XPathContext(root=node_tree(), item=item, variables=variables)
    return tok.evaluate(ctx)


def as_list(v):
    if v is None:
        return []
    if isinstance(v, list):
        return list(v)
    return [v]


# ------------------------------------------------------------------ typed value pool
ATOMS = {
    'string': ["'abc'", "''", "xs:string('x y')"],
    'normalizedString': ["xs:normalizedString('a  b')"],
    'token': ["xs:token('a b')"],
    'language': ["xs:language('en')"],
    'NMTOKEN': ["xs:NMTOKEN('n1')"],
    'Name': ["xs:Name('a:b')"],
    'NCName': ["xs:NCName('nc')"],
    'ID': ["xs:ID('id1')"],
    'IDREF': ["xs:IDREF('r1')"],
    'ENTITY': ["xs:ENTITY('e1')"],
    'boolean': ['true()', 'false()', "xs:boolean('1')"],
    'decimal': ['1.5', "xs:decimal('3')", 'xs:decimal(2)', '-0.25'],
    'integer': ['1', '0', '42', "xs:integer('-12')"],
    'nonPositiveInteger': ['xs:nonPositiveInteger(0)', 'xs:nonPositiveInteger(-3)'],
    'negativeInteger': ['xs:negativeInteger(-1)'],
    'long': ['xs:long(5)', 'xs:long(-9000000000)'],
    'int': ['xs:int(5)', 'xs:int(-70000)'],
    'short': ['xs:short(5)', 'xs:short(-300)'],
    'byte': ['xs:byte(5)', 'xs:byte(-128)'],
    'nonNegativeInteger': ['xs:nonNegativeInteger(0)', 'xs:nonNegativeInteger(7)'],
    'unsignedLong': ['xs:unsignedLong(5)'],
    'unsignedInt': ['xs:unsignedInt(5)'],
    'unsignedShort': ['xs:unsignedShort(5)'],
    'unsignedByte': ['xs:unsignedByte(5)', 'xs:unsignedByte(255)'],
    'positiveInteger': ['xs:positiveInteger(1)'],
    'double': ['1e0', "xs:double('NaN')", "xs:double('INF')", '-0e0', 'xs:double(3)'],
    'float': ['xs:float(1)', "xs:float('NaN')", "xs:float('-INF')", "xs:float('2.5')"],
    'duration': ["xs:duration('P1Y2M3DT4H')"],
    'yearMonthDuration': ["xs:yearMonthDuration('P1Y')"],
    'dayTimeDuration': ["xs:dayTimeDuration('PT1H')"],
    'dateTime': ["xs:dateTime('2000-01-01T12:00:00')", "xs:dateTime('1999-12-31T23:59:59+02:00')"],
    'time': ["xs:time('12:00:00')", "xs:time('01:02:03Z')"],
    'date': ["xs:date('2000-01-01')", "xs:date('2004-02-29Z')"],
    'gYearMonth': ["xs:gYearMonth('2000-01')"],
    'gYear': ["xs:gYear('2000')"],
    'gMonthDay': ["xs:gMonthDay('--01-31')"],
    'gDay': ["xs:gDay('---01')"],
    'gMonth': ["xs:gMonth('--01')"],
    'hexBinary': ["xs:hexBinary('0FB7')"],
    'base64Binary': ["xs:base64Binary('AAAA')"],
    'anyURI': ["xs:anyURI('http://a/b')", "xs:anyURI('')"],
    'QName': ["xs:QName('p:a')", "fn:QName('urn:p', 'p:z')", "xs:QName('local')"],
    'untypedAtomic': ["xs:untypedAtomic('u')", "xs:untypedAtomic('12')"],
}
ATOM_LABELS = sorted(ATOMS)
NUMERIC_LABELS = [k for k in ATOM_LABELS if M.derives(k, 'numeric')]

NODES = [
    ['n', 'document', 'r', '/'],
    ['n', 'element', 'r', '/r'],
    ['n', 'element', 'a', '/r/a[1]'],
    ['n', 'element', 'a', '/r/a[2]/a'],
    ['n', 'element', '{urn:p}c', '/r/p:c'],
    ['n', 'attribute', 'a', '/r/@a'],
    ['n', 'attribute', '{urn:p}b', '/r/@p:b'],
    ['n', 'attribute', '{http://www.w3.org/XML/1998/namespace}lang', '/r/@xml:lang'],
    ['n', 'text', None, '/r/a[1]/text()'],
    ['n', 'comment', None, '/r/comment()'],
    ['n', 'pi', 'tgt', '/r/processing-instruction()'],
    ['n', 'namespace', 'p', '/r/namespace::p'],
]

A = M.atomic
ST_ITEM_STAR = M.ITEM_STAR
# (params, ret, expr, min version)
FUNCS = [
    [[A('integer')], A('string'), 'function($a as xs:integer) as xs:string { "x" }', '3.0'],
    [[], A('integer', '?'), 'function() as xs:integer? { () }', '3.0'],
    [[ST_ITEM_STAR, A('string', '?')], ST_ITEM_STAR, 'function($a as item()*, $b as xs:string?) as item()* { $a }', '3.0'],
    [[ST_ITEM_STAR], ST_ITEM_STAR, 'function($a) { $a }', '3.0'],
    [[A('decimal'), A('double')], A('boolean', '+'), 'function($a as xs:decimal, $b as xs:double) as xs:boolean+ { true() }', '3.0'],
    [[M.seq(['function', [A('integer')], A('integer')])], A('integer'),
     'function($f as function(xs:integer) as xs:integer) as xs:integer { $f(1) }', '3.0'],
    [[M.seq(['node'])], M.seq(['element', None, None, False], '*'), 'function($n as node()) as element()* { () }', '3.0'],
    [[M.seq(['map', None])], M.seq(['array', None]), 'function($m as map(*)) as array(*) { [] }', '3.1'],
    [[A('string', '?')], A('integer'), 'fn:string-length#1', '3.0'],
    [[ST_ITEM_STAR], A('integer'), 'fn:count#1', '3.0'],
    [[A('anyAtomicType', '?')] * 3, A('string'), 'fn:concat#3', '3.0'],
    [[], A('boolean'), 'fn:true#0', '3.0'],
    [[A('string', '?'), A('double')], A('string'), 'fn:substring#2', '3.0'],
    [[A('double', '?')], A('double', '?'), 'math:sqrt#1', '3.0'],
    [[ST_ITEM_STAR], A('boolean'), 'fn:not#1', '3.0'],
    [[A('numeric', '?')], A('numeric', '?'), 'fn:abs#1', '3.1'],
    [[A('string', '?')], A('string'), 'fn:substring(?, 2)', '3.0'],
    [[A('anyAtomicType', '?')] * 2, A('string'), "fn:concat('a', ?, ?)", '3.0'],
    [[M.seq(['map', None])], A('integer'), 'map:size#1', '3.1'],
]

VERS = ['2.0', '3.0', '3.1']


# ------------------------------------------------------------------ generators (run() only)
def g_atom(r, label=None):
    label = label or r.choice(ATOM_LABELS)
    return ['a', label, r.choice(ATOMS[label])]


def g_node(r):
    return list(r.choice(NODES))


def g_seqtype_simple(r, depth=0):
    """a random sequence type usable inside function/map/array tests"""
    x = r.random()
    if x < 0.55:
        it = ['atomic', r.choice(ATOM_LABELS + ['anyAtomicType', 'anyAtomicType', 'integer', 'string', 'numeric'])]
    elif x < 0.7:
        it = ['item']
    elif x < 0.82:
        it = r.choice([['node'], ['element', None, None, False], ['text'], ['attribute', None, None],
                       ['element', 'a', None, False], ['document', None], ['element', 'a', 'untyped', True],
                       ['attribute', None, 'untypedAtomic'], ['pi', 'tgt'], ['namespace-node'],
                       ['document', ['element', 'r', None, False]]])
    elif x < 0.9 and depth < 2:
        it = ['function', [g_seqtype_simple(r, depth + 1) for _ in range(r.randint(0, 2))],
              g_seqtype_simple(r, depth + 1)]
    elif x < 0.95:
        it = r.choice([['map', None], ['array', None], ['function', None]])
    elif depth < 2:
        it = r.choice([['map', r.choice(['string', 'integer', 'anyAtomicType']), g_seqtype_simple(r, depth + 1)],
                       ['array', g_seqtype_simple(r, depth + 1)]])
    else:
        it = ['item']
    if r.random() < 0.04:
        return ['empty']
    return ['seq', it, r.choice(['', '', '?', '*', '+'])]


def g_func(r, ver):
    if r.random() < 0.5:
        cands = [f for f in FUNCS if f[3] <= ver]
        f = r.choice(cands)
        return ['f', f[0], f[1], f[2]]
    # inline function with a random signature (never called, so the body is irrelevant)
    params = [g_seqtype_simple(r, 1) for _ in range(r.randint(0, 3))]
    ret = g_seqtype_simple(r, 1)
    if ver < '3.1':
        params = [strip31(p) for p in params]
        ret = strip31(ret)
    expr = 'function(%s) as %s { () }' % (
        ', '.join('$a%d as %s' % (i, M.render(p, PREFIXES)) for i, p in enumerate(params)),
        M.render(ret, PREFIXES))
    return ['f', params, ret, expr]


def uses31(st):
    if st[0] == 'empty':
        return False
    it = st[1]
    if it[0] in ('map', 'array'):
        return True
    if it[0] == 'atomic' and it[1] == 'numeric':
        return True
    if it[0] == 'function' and it[1] is not None:
        return any(uses31(p) for p in it[1]) or uses31(it[2])
    return False


def strip31(st):
    return ['seq', ['item'], st[2]] if uses31(st) else st


def g_map(r, depth=0):
    """keys: at most one numeric and one string-like key, so no two keys can be equal as map keys"""
    keylab = r.choice(['string', 'integer', 'string', 'NCName', 'date', 'double'])
    entries, families = [], set()
    for _ in range(r.randint(0, 3)):
        lab = keylab if r.random() < 0.8 else r.choice(['string', 'integer', 'boolean'])
        k = g_atom(r, lab)
        if M.derives(lab, 'numeric'):
            fam = 'numeric'
        elif M.derives(lab, 'string') or lab in ('anyURI', 'untypedAtomic'):
            fam = 'string'
        else:
            fam = k[2]
        if fam in families:
            continue
        families.add(fam)
        entries.append([k, g_value(r, '3.1', depth + 1, maxlen=2)])
    return ['m', entries]


def g_array(r, depth=0):
    return ['r', [g_value(r, '3.1', depth + 1, maxlen=2) for _ in range(r.randint(0, 3))]]


def g_item(r, ver, depth=0):
    x = r.random()
    if x < 0.45 or depth > 1:
        return g_atom(r)
    if x < 0.7:
        return g_node(r)
    if ver >= '3.0' and x < 0.85:
        return g_func(r, ver)
    if ver >= '3.1':
        return g_map(r, depth) if r.random() < 0.5 else g_array(r, depth)
    return g_atom(r)


def g_value(r, ver, depth=0, maxlen=3):
    x = r.random()
    if x < 0.1:
        return []
    if x < 0.7:
        return [g_item(r, ver, depth)]
    first = g_item(r, ver, depth)
    items = [first]
    for _ in range(r.randint(1, maxlen - 1)):
        y = r.random()
        if y < 0.5 and first[0] == 'a':
            # same type family
            lab = r.choice(M.ancestors(first[1])[:2] + [first[1]])
            items.append(g_atom(r, lab if lab in ATOMS else first[1]))
        elif y < 0.7 and first[0] == 'n':
            items.append(g_node(r))
        else:
            items.append(g_item(r, ver, depth))
    return items


def item_expr(x):
    if x[0] in ('a',):
        return x[2]
    if x[0] == 'n':
        return rel_path(x[3]) if _REL[0] else x[3]
    if x[0] == 'f':
        return x[3]
    if x[0] == 'm':
        return 'map{' + ', '.join('%s: %s' % (item_expr(k), value_expr(v)) for k, v in x[1]) + '}'
    if x[0] == 'r':
        return '[' + ', '.join(value_expr(v) for v in x[1]) + ']'
    raise ValueError(x)


def value_expr(items):
    if len(items) == 1:
        return '(' + item_expr(items[0]) + ')'
    return '(' + ', '.join(item_expr(x) for x in items) + ')'


def item_min_ver(x):
    if x[0] in ('m', 'r'):
        return '3.1'
    if x[0] == 'f':
        v = '3.0'
        if 'map' in x[3] or 'array' in x[3] or 'numeric' in x[3]:
            v = '3.1'
        return v
    return '2.0'


def near_atomic(r, label):
    if label not in M.PARENT or label in M.NON_ATOMIC:
        label = r.choice(['decimal', 'double', 'float', 'integer'])
    x = r.random()
    if x < 0.25:
        return label
    if x < 0.55:
        anc = [a for a in M.ancestors(label) if a not in M.NON_ATOMIC]
        return r.choice(anc)
    if x < 0.7:
        ch = [c for c in M.children(label) if c not in M.NON_ATOMIC]
        return r.choice(ch) if ch else label
    if x < 0.8:
        return 'numeric'
    return r.choice(ATOM_LABELS + ['NOTATION', 'anyAtomicType'])


TYPE_ARGS_E = ['untyped', 'anyType', 'untypedAtomic', 'anySimpleType', 'anyAtomicType', 'string', 'integer']
OTHER_NAMES = ['a', 'r', 'x', '{urn:p}c', '{urn:p}a', '{urn:p}b', 'b', 'c']
KINDS = [['node'], ['text'], ['comment'], ['namespace-node'], ['pi', None], ['document', None],
         ['element', None, None, False], ['attribute', None, None]]


def near_seq(r, st, depth=0):
    """a sequence type near st (same / wider / narrower / unrelated)"""
    if st[0] == 'empty':
        return r.choice([['empty'], ['seq', ['item'], r.choice(['', '?', '*'])], A('integer', '?')])
    x = r.random()
    if x < 0.03:
        return ['empty']
    it = near_item(r, st[1], depth)
    occ = st[2] if r.random() < 0.55 else r.choice(['', '?', '*', '+'])
    if it[0] == 'function' and it[1] is not None and r.random() < 0.9:
        occ = ''     # a typed function test with an occurrence indicator needs a parenthesized item type
    return ['seq', it, occ]


def near_item(r, it, depth=0):
    k = it[0]
    x = r.random()
    if x < 0.08:
        return ['item']
    if k == 'atomic':
        base = it[1] if it[1] in M.PARENT else 'decimal'
        return ['atomic', near_atomic(r, base)]
    if k == 'item':
        return r.choice([['item'], ['item'], ['node'], ['atomic', 'anyAtomicType'], ['function', None]])
    if k == 'function' and it[1] is not None and depth < 3:
        y = r.random()
        params = [list(p) for p in it[1]]
        ret = it[2]
        if y < 0.2:
            pass
        elif y < 0.5 and params:
            i = r.randrange(len(params))
            params[i] = near_seq(r, params[i], depth + 1)
        elif y < 0.8:
            ret = near_seq(r, ret, depth + 1)
        elif y < 0.9:
            if params and r.random() < 0.5:
                params.pop()
            else:
                params.append(A('integer'))
        else:
            return ['function', None]
        return ['function', params, ret]
    if k == 'map' and it[1] is not None and depth < 3:
        return ['map', near_atomic(r, it[1]), near_seq(r, it[2], depth + 1)]
    if k == 'array' and it[1] is not None and depth < 3:
        return ['array', near_seq(r, it[1], depth + 1)]
    if k in ('element', 'attribute') and x < 0.2:
        # other node kinds, incl. the sibling kind test with the same name
        other = 'attribute' if k == 'element' else 'element'
        return r.choice(KINDS + [[other, it[1], None, False][:4 if other == 'element' else 3]] * 3)
    if k in ('element', 'attribute'):
        name = it[1] if r.random() < 0.6 else r.choice([None, None, None] + OTHER_NAMES)
        tn = it[2] if r.random() < 0.5 else r.choice([None, None] + TYPE_ARGS_E)
        if k == 'element':
            return ['element', name, tn, tn is not None and r.random() < 0.3]
        return ['attribute', name, tn]
    if k == 'document':
        return r.choice([['document', None], ['document', ['element', r.choice([None, 'r', 'a']), None, False]], ['node']])
    if k == 'pi':
        return ['pi', r.choice([None, 'tgt', 'other', it[1]])]
    if r.random() < 0.5:
        return list(it)
    return r.choice(KINDS + [['function', None], ['map', None], ['array', None]])


def exact_item_type(r, x):
    """an item type that (by construction) describes item x closely"""
    if x[0] == 'a':
        return ['atomic', x[1]]
    if x[0] == 'n':
        kind = x[1]
        if kind == 'document':
            return ['document', ['element', x[2], None, False]] if r.random() < 0.5 else ['document', None]
        if kind == 'element':
            return ['element', x[2], r.choice([None, 'untyped', 'anyType']), False]
        if kind == 'attribute':
            return ['attribute', x[2], r.choice([None, 'untypedAtomic', 'anyAtomicType', 'anySimpleType'])]
        if kind == 'pi':
            return ['pi', x[2]]
        if kind == 'namespace':
            return ['namespace-node']
        return [kind]
    if x[0] == 'f':
        return ['function', x[1], x[2]]
    if x[0] == 'm':
        if not x[1] or r.random() < 0.2:
            return ['map', None]
        keys = [k[1] for k, _ in x[1]]
        kt = keys[0] if all(k == keys[0] for k in keys) else 'anyAtomicType'
        vts = [exact_seq_type(r, v) for _, v in x[1]]
        vt = vts[0] if all(v == vts[0] for v in vts) else ST_ITEM_STAR
        return ['map', kt, vt]
    if x[0] == 'r':
        if not x[1] or r.random() < 0.2:
            return ['array', None]
        vts = [exact_seq_type(r, v) for v in x[1]]
        vt = vts[0] if all(v == vts[0] for v in vts) else ST_ITEM_STAR
        return ['array', vt]
    return ['item']


def exact_seq_type(r, items):
    if not items:
        return ['empty']
    it = exact_item_type(r, items[r.randrange(len(items))])
    occ = '' if len(items) == 1 else r.choice(['+', '*'])
    return ['seq', it, occ]


def type_min_ver(st):
    if uses31(st):
        return '3.1'
    return '3.0' if needs30(st) else '2.0'


def needs30(st):
    if st[0] == 'empty':
        return False
    return st[1][0] in ('function', 'namespace-node')


def has_parenthesized(st):
    """typed function test with an occurrence indicator (needs a ParenthesizedItemType), at any depth"""
    if st[0] == 'empty':
        return False
    it = st[1]
    if it[0] == 'function' and it[1] is not None:
        if st[2]:
            return True
        return any(has_parenthesized(p) for p in it[1]) or has_parenthesized(it[2])
    if it[0] == 'map' and it[1] is not None:
        return has_parenthesized(it[2])
    if it[0] == 'array' and it[1] is not None:
        return has_parenthesized(it[1])
    return False


def g_spacer(r):
    level = r.random()
    if level < 0.4:
        return M.no_space, 'none'

    def sp(_w=None):
        x = r.random()
        if x < 0.6:
            return ''
        if x < 0.9:
            return ' '
        if x < 0.97:
            return '  '
        return '\n'
    return sp, 'random'


def g_judge(r):
    ver = r.choice(['2.0', '3.0', '3.1', '3.1', '3.1'])
    items = g_value(r, ver)
    for x in items:
        if item_min_ver(x) > ver:
            ver = item_min_ver(x)
    x = r.random()
    if x < 0.07:
        st = g_seqtype_simple(r)
    else:
        st = exact_seq_type(r, items)
        if x > 0.25:
            st = near_seq(r, st)
    if type_min_ver(st) > ver:
        ver = type_min_ver(st)
    sp, spname = g_spacer(r)
    pi_quote = r.random() < 0.3
    text = M.render(st, PREFIXES, sp, pi_quote)
    case = {'ver': ver, 'v': items, 't': st, 'text': text, 'via': r.choice(['inline', 'inline', 'var']),
            'sp': spname}
    if case['via'] == 'inline' and any(x[0] == 'n' for x in items) and r.random() < 0.5:
        case['rel'] = True
    return case


def type_variants(x):
    """deterministic list of item types around item x (for the systematic grid)"""
    out = [['item']]
    if x[0] == 'a':
        anc = [a for a in M.ancestors(x[1]) if a not in M.NON_ATOMIC]
        out += [['atomic', a] for a in anc]
        out += [['atomic', c] for c in M.children(x[1]) if c not in M.NON_ATOMIC]
        out += [['atomic', 'numeric'], ['atomic', 'string'], ['atomic', 'integer'], ['atomic', 'untypedAtomic'],
                ['atomic', 'NOTATION'], ['node'], ['function', None], ['map', None], ['array', None]]
    elif x[0] == 'n':
        out += [list(k) for k in KINDS]
        out += [['function', None], ['atomic', 'string'], ['atomic', 'untypedAtomic'], ['map', None]]
        names = [None, x[2] if x[1] in ('element', 'attribute') else 'a', 'zz', '{urn:p}b', '{urn:p}c']
        for n in names:
            for t in [None] + TYPE_ARGS_E:
                out.append(['element', n, t, False])
                out.append(['attribute', n, t])
            out.append(['element', n, 'untyped', True])
            out.append(['element', n, 'anyType', True])
        out += [['pi', 'tgt'], ['pi', 'other'], ['document', ['element', 'r', None, False]],
                ['document', ['element', 'zz', None, False]], ['document', ['element', None, None, False]],
                ['document', ['element', None, 'untyped', False]]]
    elif x[0] == 'f':
        params, ret = x[1], x[2]
        out += [['function', None], ['function', params, ret], ['node'], ['map', None], ['array', None],
                ['atomic', 'string']]

        def wider(st):
            res = [ST_ITEM_STAR]
            if st[0] == 'seq':
                res += [['seq', st[1], o] for o in ('', '?', '*', '+') if o != st[2]]
                if st[1][0] == 'atomic' and st[1][1] in M.PARENT:
                    anc = [a for a in M.ancestors(st[1][1])[1:] if a not in M.NON_ATOMIC]
                    res += [['seq', ['atomic', a], st[2]] for a in anc[:2]]
                    res += [['seq', ['atomic', c], st[2]] for c in M.children(st[1][1])[:2] if c not in M.NON_ATOMIC]
                    res += [['seq', ['atomic', 'numeric'], st[2]]]
            return res
        for i, p in enumerate(params):
            for w in wider(p):
                out.append(['function', params[:i] + [w] + params[i + 1:], ret])
        for w in wider(ret) + [['empty']]:
            out.append(['function', params, w])
        out.append(['function', params + [A('integer')], ret])
        if params:
            out.append(['function', params[:-1], ret])
            out.append(['function', [M.seq(['function', None], '?')] + params[1:], ret])
            p0 = params[0]
            if p0[0] == 'seq' and p0[1][0] == 'function' and p0[1][1] is not None and p0[1][2][0] == 'seq':
                inner = p0[1]
                out.append(['function', [['seq', ['function', inner[1], ['seq', inner[2][1], '?']], p0[2]]] + params[1:],
                            ret])
            out.append(['function', [M.seq(['element', 'a', 'untyped', True])] + params[1:], ret])
        out.append(['function', params, M.seq(['element', 'a', 'untyped', True], '?')])
        out.append(['function', params, M.seq(['function', None], '?')])
    elif x[0] == 'm':
        out += [['map', None], ['function', None], ['array', None], ['node'], ['atomic', 'string'],
                ['function', [A('anyAtomicType')], ST_ITEM_STAR], ['function', [A('string')], ST_ITEM_STAR],
                ['function', [A('string', '?')], ST_ITEM_STAR], ['function', [ST_ITEM_STAR], ST_ITEM_STAR],
                ['function', [A('string'), A('string')], ST_ITEM_STAR]]
        for k in ('string', 'integer', 'anyAtomicType', 'NCName', 'date', 'numeric'):
            for v in (ST_ITEM_STAR, A('integer'), A('integer', '+'), A('anyAtomicType', '*'), M.seq(['node'], '*'),
                      M.seq(['item'])):
                out.append(['map', k, v])
        fb = M.seq(['function', [ST_ITEM_STAR], A('boolean')])
        out += [['map', 'anyAtomicType', fb], ['seq', ['map', 'anyAtomicType', fb], '*'],
                ['seq', ['map', 'date', fb], '?'], ['map', 'NCName', M.seq(['pi', 'tgt'])],
                ['map', 'NCName', M.seq(['namespace-node'])], ['map', 'NCName', M.seq(['element', None, 'untyped', False])],
                ['map', 'string', M.seq(['attribute', None, None])],
                ['map', 'anyAtomicType', M.seq(['attribute', '{urn:p}b', 'anySimpleType'])],
                ['map', 'string', M.seq(['attribute', '{urn:p}b', 'untypedAtomic'])]]
    elif x[0] == 'r':
        out += [['array', None], ['function', None], ['map', None], ['node'], ['atomic', 'integer'],
                ['function', [A('integer')], ST_ITEM_STAR], ['function', [A('int')], ST_ITEM_STAR],
                ['function', [A('decimal')], ST_ITEM_STAR], ['function', [A('integer', '?')], ST_ITEM_STAR],
                ['function', [A('anyAtomicType')], ST_ITEM_STAR]]
        for v in (ST_ITEM_STAR, A('integer'), A('integer', '+'), A('integer', '*'), A('anyAtomicType', '*'),
                  A('string'), M.seq(['node'], '*'), M.seq(['item']), M.seq(['item'], '?'), ['empty'],
                  M.seq(['namespace-node']), M.seq(['pi', 'tgt']), M.seq(['element', None, 'untyped', False]),
                  M.seq(['function', [ST_ITEM_STAR], A('boolean')])):
            out.append(['array', v])
        out.append(['seq', ['array', M.seq(['function', [ST_ITEM_STAR], A('boolean')])], '*'])
    return out


GRID_MAPS = [['m', []], ['m', [[['a', 'string', "'a'"], [['a', 'integer', '1']]]]],
             ['m', [[['a', 'integer', '1'], [['a', 'integer', '1'], ['a', 'integer', '42']]],
                    [['a', 'string', "'abc'"], []]]],
             ['m', [[['a', 'NCName', "xs:NCName('nc')"], [['n', 'element', 'r', '/r']]]]],
             ['m', [[['a', 'date', "xs:date('2000-01-01')"], [['a', 'short', 'xs:short(5)']]]]],
             ['m', [[['a', 'date', "xs:date('2000-01-01')"], [['f', [ST_ITEM_STAR], A('boolean'), 'fn:not#1']]]]],
             ['m', [[['a', 'NCName', "xs:NCName('nc')"], [['n', 'pi', 'tgt', '/r/processing-instruction()']]]]],
             ['m', [[['a', 'NCName', "xs:NCName('nc')"], [['n', 'namespace', 'p', '/r/namespace::p']]]]],
             ['m', [[['a', 'string', "'abc'"], [['r', []]]]]],
             ['m', [[['a', 'string', "'abc'"], [['n', 'attribute', '{urn:p}b', '/r/@p:b']]]]]]
GRID_ARRAYS = [['r', []], ['r', [[['a', 'integer', '1']], [['a', 'integer', '42']]]],
               ['r', [[['a', 'integer', '1'], ['a', 'integer', '0']], []]],
               ['r', [[['a', 'string', "'abc'"]], [['a', 'short', 'xs:short(5)']]]],
               ['r', [[['n', 'element', 'r', '/r']], [['n', 'attribute', 'a', '/r/@a']]]],
               ['r', [[['n', 'namespace', 'p', '/r/namespace::p']]]],
               ['r', [[['n', 'pi', 'tgt', '/r/processing-instruction()']]]],
               ['r', [[['f', [ST_ITEM_STAR], A('boolean'), 'fn:not#1']]]]]


def grid_cases():
    """systematic (value, type) grid: every pool item x its type variants, occurrence rotating"""
    pool = []
    for lab in ATOM_LABELS:
        pool.append(['a', lab, ATOMS[lab][0]])
    pool += [list(n) for n in NODES]
    pool += [['f', f[0], f[1], f[2]] for f in FUNCS]
    pool += GRID_MAPS + GRID_ARRAYS
    occs = ['', '?', '*', '+']
    n = 0
    for x in pool:
        ver = item_min_ver(x)
        for it in type_variants(x):
            n += 1
            if it[0] in ('seq', 'empty'):
                st = it
            else:
                st = ['seq', it, occs[n % 4] if not (it[0] == 'function' and it[1] is not None) else '']
            v = max(ver, type_min_ver(st))
            if v == '2.0' and n % 3:
                v = ['3.0', '3.1'][n % 2]
            items = [x] if n % 7 else [x, x]
            yield {'ver': v, 'v': items, 't': st, 'text': M.render(st, PREFIXES, M.no_space, n % 5 == 0),
                   'via': 'var' if n % 3 == 0 else 'inline', 'sp': 'none'}


def array_function_cases():
    """arrays whose members are sequences, empty or arrays, against function(xs:integer) as R: the members (not their
    flattened items) have to match R; maps against function(K) as R"""
    one, zero = ['a', 'integer', '1'], ['a', 'integer', '0']
    s_abc = ['a', 'string', "'abc'"]
    arrays = [['r', [[one, zero]]], ['r', [[]]], ['r', [[one], [one, zero]]], ['r', [[['r', [[s_abc]]]]]],
              ['r', [[['r', [[one]]]], [one]]], ['r', [[one], [zero]]], ['r', []]]
    maps = [['m', [[s_abc, [one, zero]]]], ['m', [[s_abc, [one]], [['a', 'string', "'b'"], [s_abc]]]], ['m', []]]
    rets = [A('integer'), A('integer', '?'), A('integer', '*'), A('integer', '+'), A('string'), A('string', '*'),
            ST_ITEM_STAR, M.seq(['item']), M.seq(['array', None]), M.seq(['array', A('string')]), M.seq(['array', A('integer')], '*')]
    n = 0
    for val, params in [(a, [A('integer')]) for a in arrays] + [(a, [A('long')]) for a in arrays[:3]] + \
            [(m, [A('anyAtomicType')]) for m in maps] + [(m, [A('string')]) for m in maps]:
        for ret in rets:
            n += 1
            st = ['seq', ['function', params, ret], '']
            yield {'ver': '3.1', 'v': [val], 't': st, 'text': M.render(st, PREFIXES, M.no_space, False),
                   'via': 'var' if n % 2 else 'inline', 'sp': 'none'}


def fixed_subtype_cases():
    fsize = ['f', [M.seq(['map', None])], A('integer'), 'map:size#1']
    one = ['a', 'integer', '1']
    triples = [
        ([A('integer', '?'), A('integer'), A('integer', '+')], [[], [one], [one, one]]),
        ([M.seq(['function', [M.seq(['map', None])], A('decimal')]),
          M.seq(['function', [M.seq(['map', None], '?')], A('decimal')]), M.seq(['function', None])], [[fsize]]),
        ([['empty'], A('string'), ST_ITEM_STAR], [[], [['a', 'string', "'abc'"]]]),
        ([M.seq(['item'], '?'), M.seq(['item']), ST_ITEM_STAR], [[], [one]]),
        ([M.seq(['function', [], A('integer', '?')]), M.seq(['function', [], A('integer')]),
          M.seq(['function', [], A('decimal', '*')])], [[['f', [], A('integer', '?'), 'function() as xs:integer? { () }']]]),
        ([A('int'), A('integer'), A('numeric')], [[['a', 'int', 'xs:int(5)']]]),
        ([M.seq(['element', 'a', None, False]), M.seq(['element', None, None, False]), M.seq(['node'], '*')],
         [[['n', 'element', 'a', '/r/a[1]']]]),
        ([M.seq(['map', 'string', A('integer')]), M.seq(['map', None]), M.seq(['function', None])],
         [[['m', [[['a', 'string', "'a'"], [one]]]]]]),
        ([M.seq(['array', A('integer')]), M.seq(['array', None]), M.seq(['function', [A('integer')], ST_ITEM_STAR])],
         [[['r', [[one]]]]]),
    ]
    for types, w in triples:
        yield {'ver': '3.1', 'types': [[t, M.render(t, PREFIXES), M.render(t, PREFIXES)] for t in types], 'w': w}


def g_subtype(r):
    ver = '3.1'
    items = g_value(r, ver, maxlen=2)
    s = exact_seq_type(r, items)
    if r.random() < 0.5:
        s = near_seq(r, s)
    t = near_seq(r, s)
    u = near_seq(r, t if r.random() < 0.7 else s)
    types = []
    for st in (s, t, u):
        sp, _ = g_spacer(r)
        types.append([st, M.render(st, PREFIXES), M.render(st, PREFIXES, sp)])
    w = [items, []]
    if len(items) == 1:
        w.append([items[0], items[0]])
    return {'ver': ver, 'types': types, 'w': w}


# ------------------------------------------------------------------ runtime labelling
CLASS_LABELS = {
    'UntypedAtomic': 'untypedAtomic', 'AnyURI': 'anyURI', 'QName': 'QName', 'Notation': 'NOTATION',
    'Base64Binary': 'base64Binary', 'HexBinary': 'hexBinary',
    'DateTime': 'dateTime', 'DateTime10': 'dateTime', 'DateTimeStamp': 'dateTimeStamp',
    'Date': 'date', 'Date10': 'date', 'Time': 'time',
    'GregorianDay': 'gDay', 'GregorianMonth': 'gMonth', 'GregorianMonthDay': 'gMonthDay',
    'GregorianYear': 'gYear', 'GregorianYear10': 'gYear',
    'GregorianYearMonth': 'gYearMonth', 'GregorianYearMonth10': 'gYearMonth',
    'Duration': 'duration', 'YearMonthDuration': 'yearMonthDuration', 'DayTimeDuration': 'dayTimeDuration',
}
NODE_KINDS = {'document': 'document', 'element': 'element', 'attribute': 'attribute', 'text': 'text',
              'comment': 'comment', 'processing-instruction': 'pi', 'namespace': 'namespace'}


def runtime_label(v):
    """exact-class based type label of an atomic value returned by the library"""
    if isinstance(v, (bool, int, float, Decimal, str, dt.UntypedAtomic)):
        lab = E.type_label(v)
        if ':' in lab:
            return 'unknown:' + type(v).__name__
        return lab
    return CLASS_LABELS.get(type(v).__name__, 'unknown:' + type(v).__name__)


def runtime_item(v, depth=0):
    if isinstance(v, XPathNode):
        kind = NODE_KINDS.get(getattr(v, 'node_kind', None), 'unknown')
        name = getattr(v, 'name', None)
        if kind == 'document':
            name = None
            try:
                elems = [c for c in v if getattr(c, 'node_kind', None) == 'element']
                if len(elems) == 1:
                    name = elems[0].name
            except Exception:
                name = None
        return ['n', kind, name]
    if isinstance(v, XPathMap):
        if depth > 6:
            return ['m', []]
        return ['m', [[runtime_item(k, depth + 1), [runtime_item(y, depth + 1) for y in as_list(x)]]
                      for k, x in v.items()]]
    if isinstance(v, XPathArray):
        if depth > 6:
            return ['r', []]
        return ['r', [[runtime_item(y, depth + 1) for y in as_list(x)] for x in v.items()]]
    if isinstance(v, XPathFunction):
        return ['f', None, None]
    return ['a', runtime_label(v)]


def strip_item(x):
    """drop the source text fields of a value spec -> model item"""
    if x[0] == 'a':
        return ['a', x[1]]
    if x[0] == 'n':
        return ['n', x[1], x[2]]
    if x[0] == 'f':
        return ['f', x[1], x[2]]
    if x[0] == 'm':
        return ['m', [[strip_item(k), [strip_item(y) for y in v]] for k, v in x[1]]]
    if x[0] == 'r':
        return ['r', [[strip_item(y) for y in v] for v in x[1]]]
    return x


def labels_agree(spec, rt):
    """does the object the library built carry the label the constructor was asked for?"""
    if spec[0] != rt[0]:
        return False
    if spec[0] == 'a':
        return spec[1] == rt[1]
    if spec[0] == 'n':
        return spec[1] == rt[1] and (spec[1] in ('document', 'text', 'comment', 'namespace') or spec[2] == rt[2])
    if spec[0] == 'm':
        if len(spec[1]) != len(rt[1]):
            return False
        return all(labels_agree(a[0], b[0]) and len(a[1]) == len(b[1]) and
                   all(labels_agree(p, q) for p, q in zip(a[1], b[1])) for a, b in zip(spec[1], rt[1]))
    if spec[0] == 'r':
        if len(spec[1]) != len(rt[1]):
            return False
        return all(len(a) == len(b) and all(labels_agree(p, q) for p, q in zip(a, b))
                   for a, b in zip(spec[1], rt[1]))
    return True


# ------------------------------------------------------------------ judge
def decision(o):
    """engine outcome of a boolean judgement -> True | False | 'error:CODE' | 'exc:Type'"""
    if o[0] == 'ok':
        if o[1] is True or o[1] is False:
            return o[1]
        return 'non-boolean:' + type(o[1]).__name__
    if o[0] == 'err':
        return 'error:' + (o[1] or 'nocode')
    return 'exc:%s@%s' % (o[1], o[2])


def ta_decision(o):
    if o[0] == 'ok':
        return True
    if o[0] == 'err' and o[1] == 'XPDY0050':
        return False
    return decision(o)


def direction(dec):
    if dec is True:
        return 'false-positive'
    if dec is False:
        return 'false-negative'
    return dec


T_CLASS = {'untyped': 'untyped', 'anyType': 'anyType|anySimpleType', 'anySimpleType': 'anyType|anySimpleType',
           'untypedAtomic': 'untypedAtomic|anyAtomicType', 'anyAtomicType': 'untypedAtomic|anyAtomicType'}


def key_shape(it, coarse=False):
    """shape of an item type for mechanism keys; `coarse` (used for errors) drops the name part and
    merges element/attribute and map/array"""
    k = it[0]
    if k == 'atomic':
        return 'union-type' if it[1] in M.UNIONS else 'atomic-type'
    if k in ('element', 'attribute'):
        if it[2] is None:
            return '%s(%s)' % (k, '' if it[1] is None else 'N')
        t = 'T=' + T_CLASS.get(it[2], 'atomic')
        if coarse:
            return 'element-or-attribute(..,%s)' % t
        return '%s(%s,%s)' % (k, '*' if it[1] is None else 'N', t)
    if k == 'pi':
        return 'pi(N)' if it[1] is not None else 'pi()'
    if k == 'document':
        return 'document-node(E)' if it[1] is not None else 'document-node()'
    if k == 'function':
        return 'function(*)' if it[1] is None else 'function(typed)'
    if k in ('map', 'array'):
        if coarse:
            return 'map-or-array-test'
        return k + ('(*)' if it[1] is None else '(typed)')
    return k + '()'


def coarse_class(st):
    if st[0] == 'empty':
        return 'empty-sequence()'
    k = st[1][0]
    if k == 'atomic':
        return 'atomic-type'
    if k == 'item':
        return 'item()'
    return 'non-atomic-test'


def item_kind(x):
    return {'a': 'atomic', 'f': 'function', 'm': 'map', 'r': 'array'}.get(x[0]) or x[1]


TARGET_KIND = {'text': 'text', 'comment': 'comment', 'namespace-node': 'namespace', 'pi': 'pi',
               'document': 'document', 'element': 'element', 'attribute': 'attribute', 'atomic': 'atomic',
               'map': 'map', 'array': 'array'}


def sub_seqtypes(st):
    """direct component sequence types of a sequence type"""
    if st[0] == 'empty':
        return []
    it = st[1]
    if it[0] == 'function' and it[1] is not None:
        return list(it[1]) + [it[2]]
    if it[0] == 'map' and it[1] is not None:
        return [['seq', ['atomic', it[1]], ''], it[2]]
    if it[0] == 'array' and it[1] is not None:
        return [it[1]]
    if it[0] == 'document' and it[1] is not None:
        return [['seq', it[1], '']]
    return []


def bare(st):
    return st if st[0] == 'empty' else ['seq', st[1], '']


NODE_PROBES = [[['n', 'element', 'r', '/r']], [['n', 'attribute', 'a', '/r/@a']], []]


def error_key(pre, judge, spec, st, dec):
    """an error/exception instead of a verdict: an exception is keyed by its site; an error by the
    smallest component type that still produces an error (and by that component's own error)"""
    if dec.startswith('exc:'):
        return pre + 'exception/' + dec[4:], st
    probes = [spec] + [p for p in NODE_PROBES if p != spec]
    for x in spec:      # members of arrays / entries of maps are probes for the component types
        if x[0] == 'r':
            probes.extend(v for v in x[1] if v)
        elif x[0] == 'm':
            probes.extend(v for _, v in x[1] if v)
            probes.extend([k] for k, _ in x[1])

    def failure(t):
        cands = [t]
        if t[0] == 'seq':
            cands += [['seq', g, t[2]] for g in generalisations(t[1])]
        for c in cands:
            for p in probes:
                d = judge(p, c)
                if not isinstance(d, bool):
                    return d
        return None

    cur = st
    for _ in range(8):
        for sub in sub_seqtypes(cur):
            d = failure(sub)
            if d is not None:
                cur, dec = sub, d
                break
        else:
            break
    if dec.startswith('exc:'):
        return pre + 'exception/' + dec[4:], cur
    plus = ''
    if cur[0] == 'seq' and cur[2] and failure(bare(cur)) is None:
        plus = '+occurrence'
    shp = 'empty-sequence()' if cur[0] == 'empty' else key_shape(cur[1], True)
    return pre + 'type/%s%s/%s' % (shp, plus, dec), cur


def generalisations(it):
    k = it[0]
    if k == 'element':
        if it[2] is not None:
            yield ['element', it[1], None, False]
        if it[1] is not None:
            yield ['element', None, it[2], it[3]]
        if it[2] is not None and it[3]:
            yield ['element', it[1], it[2], False]
    elif k == 'attribute':
        if it[2] is not None:
            yield ['attribute', it[1], None]
        if it[1] is not None:
            yield ['attribute', None, it[2]]
    elif k == 'pi' and it[1] is not None:
        yield ['pi', None]
    elif k == 'document' and it[1] is not None:
        yield ['document', None]
    elif k in ('map', 'array', 'function') and it[1] is not None:
        yield [k, None]


def generalise(judge, xs, x, it, d1):
    """simplify the item type while the single-item judgement stays wrong in the same way"""
    for _ in range(6):
        for cand in generalisations(it):
            m = M.match_item(x, cand)
            if m is None or m == d1:
                continue
            if judge([xs], ['seq', cand, '']) == d1:
                it = cand
                break
        else:
            break
    return it


def rel_call(s_text, t_text):
    """engine: is S a subtype of T?"""
    return decision(E.call(is_sequence_type_restriction, t_text, s_text))


def relation_cause(S, T, depth=0):
    """why does the engine's subtype relation differ from the model for S <: T ?"""
    if S[0] == 'empty' or T[0] == 'empty':
        return 'occurrence'
    eb = rel_call(M.render(bare(S), PREFIXES), M.render(bare(T), PREFIXES))
    mb = M.subtype(bare(S), bare(T))
    if eb == mb:
        return 'occurrence'
    a, b = S[1], T[1]
    if a[0] == 'function' and b[0] == 'function' and a[1] is not None and b[1] is not None \
            and len(a[1]) == len(b[1]) and depth < 4:
        pairs = [(y, x) for x, y in zip(a[1], b[1])] + [(a[2], b[2])]
        for s2, t2 in pairs:
            m = M.subtype(s2, t2)
            if m is None:
                continue
            if rel_call(M.render(s2, PREFIXES), M.render(t2, PREFIXES)) != m:
                return relation_cause(s2, t2, depth + 1)
    where = ''
    if a[0] == 'function' and b[0] == 'function':
        d = sorted(differing_roles(S, T))
        if d:
            # WHERE the two function tests differ (parameter of a parameter, return type of a parameter, ...):
            # different roles are compared by different code of the relation
            where = '/differs-at:' + ','.join(d[:3])
    return 'item-types/%s<:%s%s' % (key_shape(a), key_shape(b), where)


def differing_roles(S, T, depth=0):
    """role paths (param / return, nested with '.') at which two sequence types of function tests differ"""
    out = set()
    if S == T or depth > 3:
        return out
    a, b = (S[1] if S[0] == 'seq' else None), (T[1] if T[0] == 'seq' else None)
    if a is None or b is None or a[0] != 'function' or b[0] != 'function' or a[1] is None or b[1] is None \
            or len(a[1]) != len(b[1]):
        out.add('type')
        return out
    if S[2] != T[2]:
        out.add('indicator')
    for x, y in zip(a[1], b[1]):
        for r in differing_roles(x, y, depth + 1):
            out.add('param' if r in ('type', 'indicator') else 'param.' + r)
    for r in differing_roles(a[2], b[2], depth + 1):
        out.add('return' if r in ('type', 'indicator') else 'return.' + r)
    return out


def function_test_key(pre, x, it, d1):
    params, ret = x[1], x[2]
    if params is None or len(params) != len(it[1]):
        return None
    pairs = [('parameter', t, f) for f, t in zip(params, it[1])] + [('return', ret, it[2])]
    for role, s, t in pairs:
        m = M.subtype(s, t)
        if m is None:
            continue
        e = rel_call(M.render(s, PREFIXES), M.render(t, PREFIXES))
        if e != m:
            cause = relation_cause(s, t)
            if e is True and cause == 'occurrence':
                oc = occ_class(s, t)
                cause = 'occurrence/' + (oc if oc != 'other' else 'nested-in-function-test')
            if e is False:
                # all gaps of the relation w.r.t. the 3.1 subtype rules share one key (pair in the detail)
                cause = cause.split('/')[0]
            # the relation is shared by every judgement: one key whichever judgement exposed it
            return 'C18/function-test/relation-%s/%s' % (
                {True: 'unsound', False: 'incomplete'}.get(e, e), cause)
    return None


def allows_empty(st):
    return st[0] == 'empty' or st[2] in ('?', '*')


def allows_many(st):
    return st[0] == 'seq' and st[2] in ('*', '+')


def _return_indicator(t):
    """t renders as 'function(..) as [function(..) as]* T?' or 'T*' with no indicator of its own"""
    while isinstance(t, list) and t and t[0] == 'seq' and t[2] == '' and isinstance(t[1], list) and \
            t[1][0] == 'function' and isinstance(t[1][-1], list):
        t = t[1][-1]
        if t[0] == 'seq' and t[2] in ('?', '*'):
            return True
    return False


def occ_class(s, t):
    if allows_empty(s) and not allows_empty(t):
        if _return_indicator(t):
            # 'function(..) as T*': the occurrence indicator of the RETURN type is read as the test's own
            return 'optional<:required/return-type-indicator-of-function-test-read-as-own'
        return 'optional<:required'
    if allows_many(s) and not allows_many(t):
        return 'many<:one'
    if s[0] == 'seq' and t[0] == 'empty':
        return 'non-empty<:empty'
    return 'other'


def classify(judgement, judge, spec, items, st, dec, model, depth=0):
    """mechanism key of a wrong judgement, found by decomposition (delta debugging on the case):
    smallest component type for errors; for wrong verdicts: is a single item against the bare item
    type already judged wrongly (then: the most general item type still judged wrongly, descending
    into map/array members and function signatures) or only the sequence/occurrence combination?

    judge(value_spec, seqtype) -> decision of the same judgement
    """
    pre = 'C18/%s/' % judgement
    if has_parenthesized(st):
        return pre + 'parenthesized-item-type/' + (dec if not isinstance(dec, bool) else 'wrong-verdict')
    if depth == 0 and judge(spec, st) != dec:
        # the same type in canonical spelling (no optional whitespace, unquoted PI target) is judged differently
        shape = 'empty-sequence()' if st[0] == 'empty' else key_shape(st[1], True)
        _PIQ[0] = True          # canonical whitespace, quoted PI targets
        try:
            quoted = judge(spec, st)
        finally:
            _PIQ[0] = False
        if quoted == dec and "processing-instruction('" in M.render(st, PREFIXES, M.no_space, True):
            return pre + 'spelling-sensitive/quoted-pi-target/%s' % shape
        return pre + 'spelling-sensitive/optional-whitespace/%s' % shape
    if not isinstance(dec, bool):
        return error_key(pre, judge, spec, st, dec)[0]
    if st[0] == 'empty':
        return pre + 'sequence/empty-sequence()/' + direction(dec)
    it = st[1]
    seen = []
    for x, xs in zip(items, spec):
        if x in seen:
            continue
        seen.append(x)
        m1 = M.match_item(x, it)
        if m1 is None:
            continue
        d1 = judge([xs], ['seq', it, ''])
        if d1 == m1:
            continue
        if not isinstance(d1, bool):
            return error_key(pre, judge, [xs], ['seq', it, ''], d1)[0]
        it2 = generalise(judge, xs, x, it, d1)
        if depth < 3 and it2[0] == 'map' and it2[1] is not None and x[0] == 'm':
            for (k, v), (ks, vs) in zip(x[1], xs[1]):
                mk = M.match_item(k, ['atomic', it2[1]])
                kt = ['seq', ['atomic', it2[1]], '']
                dk = judge([ks], kt)
                if mk is not None and dk != mk:
                    return classify(judgement, judge, [ks], [k], kt, dk, mk, depth + 1)
                mv = M.match_seq(v, it2[2])
                dv = judge(vs, it2[2])
                if mv is not None and dv != mv:
                    return classify(judgement, judge, vs, v, it2[2], dv, mv, depth + 1)
        if depth < 3 and it2[0] == 'array' and it2[1] is not None and x[0] == 'r':
            for v, vs in zip(x[1], xs[1]):
                mv = M.match_seq(v, it2[1])
                dv = judge(vs, it2[1])
                if mv is not None and dv != mv:
                    return classify(judgement, judge, vs, v, it2[1], dv, mv, depth + 1)
        if it2[0] == 'function' and it2[1] is not None and x[0] == 'f':
            key = function_test_key(pre, x, it2, d1)
            if key:
                return key
            if x[1] is not None and len(x[1]) == len(it2[1]):
                # the subtype relation judges every component correctly: the function item's own comparison of
                # its signature with the test is at fault; name where the two signatures differ
                d = sorted(differing_roles(['seq', ['function', x[1], x[2]], ''], ['seq', it2, '']))
                if d:
                    return pre + 'item/function(typed)/signature-vs-test/%s/differs-at:%s' % (
                        direction(d1), d[0])
        if it2[0] == 'function' and it2[1] is not None and x[0] in ('m', 'r'):
            # maps and arrays are functions: which code judges them against a typed function test depends on
            # the value (map entries / array members that are single items / members that are sequences or arrays)
            if x[0] == 'm':
                vk = 'map-value'
            elif not x[1]:
                vk = 'array-value/empty'
            elif all(len(mb) == 1 and mb[0][0] != 'r' for mb in x[1]):
                vk = 'array-value/single-item-members'
            else:
                vk = 'array-value/sequence-or-array-member'
            return pre + 'item/function(typed)/%s/%s' % (vk, direction(d1))
        cross = ''
        if d1 is True and TARGET_KIND.get(it2[0], item_kind(x)) != item_kind(x):
            cross = '/cross-kind'
        if it2[0] in ('map', 'array') and it2[1] is not None and not cross:
            # no component judged through this same judgement explains it: the member/entry types of
            # typed map and array tests are judged by other code than a top-level type
            member = it2[2] if it2[0] == 'map' else it2[1]
            mshape = 'empty-sequence()' if member[0] == 'empty' else key_shape(member[1], True)
            return pre + 'item/map-or-array(typed)/member:%s/%s' % (mshape, direction(d1))
        return pre + 'item/%s/%s%s' % (key_shape(it2), direction(d1), cross)
    # every single item is judged correctly: the sequence / occurrence handling is at fault
    if model is False:
        allm = M.and3(M.match_item(x, it) for x in items) is True
        reason = 'cardinality' if (allm or not items) else 'item-mismatch'
    else:
        return pre + 'sequence/%s/%s' % (coarse_class(st), direction(dec))
    return pre + 'sequence/%s/%s/%s' % (coarse_class(st), direction(dec), reason)


def same_items(val, res, by_identity):
    if len(val) != len(res):
        return False
    for a, b in zip(val, res):
        if isinstance(a, (XPathNode,)):
            if a is not b:
                return False
        elif by_identity and isinstance(a, (XPathFunction,)):
            if a is not b:
                return False
        else:
            if type(a) is not type(b) or E.describe(a) != E.describe(b):
                return False
    return True


def run_judge(case, out):
    """`rel` cases write the node operands relative to the context item (`a[1]`, `.`, `@a` for /r/a[1], /r, /r/@a):
    the judged value is the same, so is the expected verdict; a verdict that is wrong only in the relative form is
    a focus defect of the judging expression (the operand's later items evaluated against an item the judgement
    itself moved) and gets its own key."""
    if not case.get('rel'):
        return _run_judge(case, out)
    _REL[0] = True
    try:
        _run_judge(case, out)
    finally:
        _REL[0] = False
    if out.fails:
        ref = Outcome()
        _run_judge(case, ref)
        if not ref.fails:
            judges = sorted({k.split('/')[1] for k, _ in out.fails})
            det = out.fails[0][1]
            out.fails[:] = [('C18/%s/relative-operand-judged-differently-from-absolute' % j, det) for j in judges]


def _run_judge(case, out):
    ver, via, st, text = case['ver'], case['via'], case['t'], case['text']
    spec = case['v']
    items = [strip_item(x) for x in spec]
    model = M.match_seq(items, st)
    vclass = M.value_class(items)
    shp = M.shape(st)
    occ = st[2] if st[0] == 'seq' else ''
    out.dim('value_class', vclass)
    out.dim('type_shape', shp)
    out.dim('occurrence', (occ or 'one') if st[0] == 'seq' else 'empty-sequence()')
    out.dim('version', ver)
    out.dim('seq_len', min(len(items), 3))
    out.dim('spacing', case.get('sp', 'none'))
    for x in items:
        if x[0] == 'a':
            out.dim('atomic_value_type', x[1])
    if st[0] == 'seq' and st[1][0] == 'atomic':
        out.dim('atomic_target_type', st[1][1])
    vexpr = value_expr(spec)
    o = E.call(evalx, vexpr, ver)
    if o[0] != 'ok':
        out.dim('undecided', 'value-expression-failed:' + str(o[1]))
        out.nontrivial = False
        out.obs = 'value %s -> %s' % (vexpr, list(o))
        return
    val = as_list(o[1])
    rt = [runtime_item(v) for v in val]
    if len(rt) != len(items) or not all(labels_agree(a, b) for a, b in zip(items, rt)):
        out.dim('undecided', 'constructor-label-differs')
        out.nontrivial = False
        out.obs = 'value %s built as %s' % (vexpr, rt)
        return
    if model is None:
        out.dim('undecided', 'model:' + shp)
        out.nontrivial = False
    else:
        out.dim('model_verdict', model)

    if via == 'var':
        variables = {'v': val[0] if len(val) == 1 else val}
        lhs = '$v'
    else:
        variables = None
        lhs = vexpr

    def judge_io(vs, t):
        return decision(E.call(evalx, '%s instance of %s' % (value_expr(vs), M.render(t, PREFIXES, M.no_space, _PIQ[0])), ver))

    def judge_ta(vs, t):
        return ta_decision(E.call(evalx, '%s treat as %s' % (value_expr(vs), M.render(t, PREFIXES, M.no_space, _PIQ[0])), ver))

    def judge_api(vs, t):
        o1 = E.call(evalx, value_expr(vs), ver)
        if o1[0] != 'ok':
            return 'value-failed'
        v1 = as_list(o1[1])
        return decision(E.call(match_sequence_type, v1[0] if len(v1) == 1 else v1,
                               M.render(t, PREFIXES, M.no_space, _PIQ[0]), E.PARSERS[ver](namespaces=NS)))

    # ---- instance of
    io_key = None
    o_io = E.call(evalx, '%s instance of %s' % (lhs, text), ver, variables)
    io = decision(o_io)
    out.dim('instance_of_result', io if isinstance(io, bool) else io.split('@')[0])
    if model is not None:
        out.dim('oracle_comparisons', 'instance-of')
        if io != model:
            io_key = classify('instance-of', judge_io, spec, items, st, io, model)
            out.fail(io_key,
                     {'expr': '%s instance of %s' % (lhs, text), 'value': vexpr, 'version': ver,
                      'expected': model, 'got': list(o_io) if o_io[0] != 'ok' else o_io[1]})
    # ---- treat as (judged only where it departs from the engine's own instance-of verdict)
    o_ta = E.call(evalx, '%s treat as %s' % (lhs, text), ver, variables)
    ta = ta_decision(o_ta)
    out.dim('treat_as_result', ta if isinstance(ta, bool) else ta.split('@')[0])
    if model is not None:
        out.dim('oracle_comparisons', 'treat-as')
        if ta != model and ta != io:
            det = {'expr': '%s treat as %s' % (lhs, text), 'value': vexpr, 'version': ver,
                   'expected': 'value unchanged' if model else 'XPDY0050',
                   'got': list(o_ta) if o_ta[0] != 'ok' else E.describe(o_ta[1])}
            if has_parenthesized(st):
                out.fail('C18/treat-as/parenthesized-item-type/%s' % (ta if not isinstance(ta, bool) else 'wrong-verdict'), det)
            elif isinstance(ta, bool):
                # treat-as is judged only where it departs from the engine's own instance-of verdict
                out.fail('C18/treat-as/%s/%s' % (coarse_class(st), 'returns-non-matching-value' if ta
                                               else 'XPDY0050-on-matching-value'), det)
            else:
                key, minimal = error_key('C18/treat-as/', judge_ta, spec, st, ta)
                if any(not isinstance(judge_io(p, minimal), bool) for p in [spec] + NODE_PROBES):
                    out.dim('treat_as_error_shared_with_instance_of', ta)
                else:
                    out.fail(key, det)
        if o_ta[0] == 'ok' and model is True:
            out.dim('oracle_comparisons', 'treat-as-identity')
            res = as_list(o_ta[1])
            if not same_items(val, res, via == 'var'):
                out.fail('C18/treat-as/value-changed/%s' % vclass,
                         {'expr': '%s treat as %s' % (lhs, text), 'value': vexpr, 'version': ver,
                          'expected': E.describe(val), 'got': E.describe(res)})
    # ---- match_sequence_type API
    parser = E.PARSERS[ver](namespaces=NS)
    arg = val[0] if len(val) == 1 else val
    o_api = E.call(match_sequence_type, arg, text, parser)
    api = decision(o_api)
    out.dim('api_result', api if isinstance(api, bool) else api.split('@')[0])
    if model is not None:
        out.dim('oracle_comparisons', 'match_sequence_type')
        api_key = classify('match_sequence_type', judge_api, spec, items, st, api, model) if api != model else None
        if api_key is not None and api == io and io_key is not None and \
                io_key.replace('/instance-of/', '/match_sequence_type/') == api_key and \
                (api_key.startswith('C18/function-test/') or 'atomic-type' in api_key or 'union-type' in api_key):
            # function tests and atomic types go through the same code for both judgements
            out.dim('api_failure_shared_with_instance_of', api_key.split('/', 1)[1])
        elif api_key is not None:
            out.fail(api_key,
                     {'call': 'match_sequence_type(%s, %r)' % (vexpr, text), 'version': ver,
                      'expected': model, 'got': list(o_api) if o_api[0] != 'ok' else o_api[1]})
    out.obs = '%s | %s : model=%s instance-of=%s treat-as=%s api=%s' % (vexpr, text, model, io, ta, api)


# ------------------------------------------------------------------ subtype
def run_subtype(case, out):
    types = case['types']
    ver = case['ver']
    n = len(types)
    rel = {}
    for i in range(n):
        for j in range(n):
            a_text = types[i][1] if i != j else types[i][2]
            d = rel_call(a_text, types[j][1])
            rel[i, j] = d
            out.dim('subtype_relation_calls', 'total')
            if not isinstance(d, bool):
                out.fail('C18/subtype/%s/%s<:%s' % (d, M.shape(types[i][0]), M.shape(types[j][0])),
                         {'S': a_text, 'T': types[j][1]})
    # reflexive
    for i in range(n):
        out.dim('subtype_checks', 'reflexive')
        out.dim('subtype_shape', M.shape(types[i][0]))
        if rel[i, i] is False:
            tag = '/parenthesized-item-type' if has_parenthesized(types[i][0]) else ''
            out.fail('C18/subtype/not-reflexive/%s%s' % (key_shape(types[i][0][1], True) if types[i][0][0] == 'seq'
                                                         else 'empty-sequence()', tag),
                     {'S': types[i][2], 'T': types[i][1], 'expected': True, 'got': False})
    # transitive
    for i in range(n):
        for j in range(n):
            for k in range(n):
                if len({i, j, k}) < 3:
                    continue
                if rel[i, j] is True and rel[j, k] is True:
                    out.dim('subtype_checks', 'transitive-premise-held')
                    if rel[i, k] is False:
                        # which of the three relation values departs from the model relation?
                        cause = 'unexplained'
                        pairs = [(x, y) for x, y in ((i, j), (j, k)) if M.subtype(types[x][0], types[y][0]) is False]
                        for x, y in pairs + [(i, k)]:
                            m = M.subtype(types[x][0], types[y][0])
                            if m is not None and m != rel[x, y]:
                                cause = relation_cause(types[x][0], types[y][0]).split('/')[0]
                                if cause != 'occurrence':
                                    cause = ('unsound-' if rel[x, y] else 'incomplete-') + cause
                                break
                        key = 'C18/subtype/not-transitive/' + cause
                        out.fail(key, {'A': types[i][1], 'B': types[j][1], 'C': types[k][1],
                                       'A<:B': True, 'B<:C': True, 'A<:C': False})
    # agreement with the model relation (counted, not judged: the statement only demands soundness)
    for i in range(n):
        for j in range(n):
            if i == j:
                continue
            m = M.subtype(types[i][0], types[j][0])
            if m is None or not isinstance(rel[i, j], bool):
                out.dim('subtype_vs_model', 'undecided')
            elif m == rel[i, j]:
                out.dim('subtype_vs_model', 'agree-%s' % m)
            elif rel[i, j]:
                out.dim('subtype_vs_model', 'engine-accepts-model-rejects')
            else:
                out.dim('subtype_vs_model', 'engine-incomplete')
    # soundness with witnesses
    wit = []
    for spec in case['w']:
        items = [strip_item(x) for x in spec]
        o = E.call(evalx, value_expr(spec) if spec else '()', ver)
        val = as_list(o[1]) if o[0] == 'ok' else None
        if val is not None:
            rt = [runtime_item(v) for v in val]
            if len(rt) != len(items) or not all(labels_agree(a, b) for a, b in zip(items, rt)):
                val = None
        wit.append((spec, items, val))
    parser = E.PARSERS[ver](namespaces=NS)
    for i in range(n):
        for j in range(n):
            if i == j or rel[i, j] is not True:
                continue
            S, T = types[i], types[j]
            for spec, items, val in wit:
                if val is None and spec:
                    continue
                ms, mt = M.match_seq(items, S[0]), M.match_seq(items, T[0])
                out.dim('subtype_checks', 'soundness-witness-tried')
                fired = False
                if ms is True:
                    out.dim('subtype_checks', 'soundness-witness-in-S')
                if ms is True and mt is False:
                    fired = True
                    item_ok = S[0][0] == 'empty' or T[0][0] == 'empty' or \
                        M.and3(M.match_item(x, T[0][1]) for x in items) is True
                    if item_ok:
                        key = 'C18/subtype/unsound/occurrence/%s' % occ_class(S[0], T[0])
                    else:
                        cause = relation_cause(S[0], T[0])
                        if cause == 'occurrence':
                            cause = 'occurrence/nested-in-function-test'
                        key = 'C18/subtype/unsound/%s' % cause
                    out.fail(key, {'S': S[1], 'T': T[1], 'engine_says_S_subtype_of_T': True,
                                   'witness': value_expr(spec) if spec else '()',
                                   'witness_matches_S': True, 'witness_matches_T': False})
                if val is not None and not fired:
                    arg = val[0] if len(val) == 1 else val
                    es = decision(E.call(match_sequence_type, arg, S[1], parser))
                    et = decision(E.call(match_sequence_type, arg, T[1], parser))
                    if es is True and et is False and mt is not True and ms is not False:
                        out.fail('C18/subtype/unsound-for-engine-matcher/%s<:%s' % (M.shape(S[0]), M.shape(T[0])),
                                 {'S': S[1], 'T': T[1], 'witness': value_expr(spec) if spec else '()'})
    out.obs = '%s ; relation=%s' % ([t[1] for t in types],
                                   ''.join('1' if rel[i, j] is True else '0' for i in range(n) for j in range(n)))
    out.nontrivial = any(rel[i, j] is True for i in range(n) for j in range(n) if i != j)


# ------------------------------------------------------------------ signatures
COLLATIONS = ["'http://www.w3.org/2005/xpath-functions/collation/codepoint'",
              "'http://www.w3.org/2005/xpath-functions/collation/html-ascii-case-insensitive'"]
REGEXES = ["'a+'", "'[a-c]'", "'\\s+'", "'(b)(c)?'", "'b'"]
FLAGS = ["''", "'i'", "'x'", "'s'"]
JSON_TEXTS = ["'{\"a\":[1,2.5,null,true]}'", "'[1,\"x\"]'", "'null'", "'12'", "'\"s\"'", "'{}'"]
XML_TEXTS = ["'<a>x</a>'", "'<a b=\"1\"><c/>t</a>'"]
OPTION_MAPS = ['map{}', "map{'liberal': true()}", "map{'duplicates': 'use-first'}", "map{'indent': true()}"]
DATE_PICS = ["'[Y0001]-[M01]-[D01]'", "'[D1o] [MNn] [Y]'", "'[FNn]'"]
TIME_PICS = ["'[H01]:[m01]:[s01]'", "'[h]:[m01] [P]'", "'[Z]'"]
HINTS = {}
for _f in ('matches', 'replace', 'tokenize', 'analyze-string'):
    HINTS[_f, 1] = REGEXES
for _f, _i in (('matches', 2), ('replace', 3), ('tokenize', 2), ('analyze-string', 2)):
    HINTS[_f, _i] = FLAGS
HINTS['replace', 2] = ["'x'", "'[$0]'", "''"]
for _f, _i in (('compare', 2), ('contains', 2), ('starts-with', 2), ('ends-with', 2), ('substring-before', 2),
               ('substring-after', 2), ('deep-equal', 2), ('distinct-values', 1), ('index-of', 2), ('max', 1),
               ('min', 1), ('contains-token', 2), ('sort', 1), ('collation-key', 1)):
    HINTS[_f, _i] = COLLATIONS + ['()'] if _f == 'sort' else COLLATIONS
HINTS['array:sort', 1] = COLLATIONS + ['()']
for _f in ('format-date',):
    HINTS[_f, 1] = DATE_PICS
HINTS['format-dateTime', 1] = DATE_PICS + TIME_PICS
HINTS['format-time', 1] = TIME_PICS
for _f in ('format-date', 'format-dateTime', 'format-time'):
    HINTS[_f, 2] = ['()', "'en'"]
    HINTS[_f, 3] = ['()', "'AD'", "'ISO'"]
    HINTS[_f, 4] = ['()', "'us'"]
HINTS['format-integer', 1] = ["'1'", "'w'", "'I'", "'a'", "'Ww'", "'001'", "'1;o'"]
HINTS['format-integer', 2] = ['()', "'en'"]
HINTS['format-number', 1] = ["'0.00'", "'#,##0'", "'0.0e0'", "'#%'"]
HINTS['format-number', 2] = ['()']
HINTS['normalize-unicode', 1] = ["'NFC'", "'NFKD'", "''", "'nfd'"]
for _f in ('parse-json', 'json-to-xml'):
    HINTS[_f, 0] = JSON_TEXTS + ['()']
    HINTS[_f, 1] = OPTION_MAPS
HINTS['parse-xml', 0] = XML_TEXTS + ['()']
HINTS['parse-xml-fragment', 0] = XML_TEXTS + ["'x<a/>y'", "''", '()']
HINTS['parse-ietf-date', 0] = ["'Wed, 06 Jun 1994 07:29:35 GMT'", "'06 Jun 94 07:29 EST'", '()']
HINTS['resolve-uri', 0] = ["'a/b'", "'http://x/y'", '()']
HINTS['resolve-uri', 1] = ["'http://example.com/x/'"]
HINTS['resolve-QName', 0] = ["'p:a'", "'a'", '()']
HINTS['namespace-uri-for-prefix', 0] = ["'p'", "'xml'", "''", "'zz'", '()']
HINTS['lang', 0] = ["'en'", "'fr'", '()']
HINTS['id', 0] = ["'x'", "('x', 'y')", "'zz'"]
HINTS['element-with-id', 0] = ["'x'", "'zz'"]
HINTS['idref', 0] = ["'x'", "'zz'"]
HINTS['codepoints-to-string', 0] = ['(97, 98)', '()', '65', 'xs:short(8364)']
HINTS['xml-to-json', 0] = ["fn:json-to-xml('{\"a\":[1,null]}')", "fn:json-to-xml('[true]')", '()',
                           "fn:json-to-xml('1')/*"]
HINTS['xml-to-json', 1] = OPTION_MAPS
HINTS['function-lookup', 0] = ["fn:QName('http://www.w3.org/2005/xpath-functions', 'abs')",
                               "fn:QName('http://www.w3.org/2005/xpath-functions', 'nope')",
                               "fn:QName('http://www.w3.org/2005/xpath-functions/math', 'pi')"]
HINTS['function-lookup', 1] = ['1', '0', '2']
HINTS['apply', 0] = ['fn:concat#2', 'fn:abs#1', 'fn:true#0', 'function($a, $b) { ($a, $b) }']
HINTS['apply', 1] = ["['a', 'b']", '[-1]', '[]', '[(1, 2), ()]']
HINTS['environment-variable', 0] = ["'PATH'", "'HOME'", "'RV_NO_SUCH_VARIABLE'"]
HINTS['serialize', 1] = ['()']
HINTS['round', 1] = ['-1', '0', '1', '2', 'xs:byte(3)']
HINTS['round-half-to-even', 1] = ['-1', '0', '1', '2', 'xs:byte(3)']
HINTS['json-doc', 1] = OPTION_MAPS
HINTS['random-number-generator', 0] = ['()', '1', "'seed'", "xs:date('2000-01-01')"]
HINTS['array:get', 1] = ['1', '2']
HINTS['array:put', 1] = ['1', '2']
HINTS['array:remove', 1] = ['1', '()', '(1, 2)']
HINTS['array:insert-before', 1] = ['1', '2']
HINTS['array:subarray', 1] = ['1', '2']
HINTS['array:subarray', 2] = ['0', '1']
HINTS['array:join', 0] = ['([1], [2, 3])', '()', "[(), 'a']"]
HINTS['array:flatten', 0] = ['([1, [2, (3, 4)]], 5)', '()']
HINTS['map:merge', 1] = ["map{'duplicates': 'use-last'}", "map{'duplicates': 'combine'}", 'map{}']
HINTS['map:merge', 0] = ["(map{'a': 1}, map{'a': 2, 'b': ()})", '()', "map{1: 'x'}"]
HINTS['sum', 1] = ['0', '()', '0e0', "xs:dayTimeDuration('PT0S')"]
HINTS['in-scope-prefixes', 0] = ['/r', '/r/p:c']
HINTS['subsequence', 1] = ['1', '2', '0', '1.5', "xs:double('NaN')", '-1e0']
HINTS['subsequence', 2] = ['1', '2', '0', "xs:double('INF')"]
HINTS['substring', 1] = ['1', '2', '0', '1.5', "xs:double('NaN')", '-1e0']
HINTS['substring', 2] = ['1', '2', '0', "xs:double('INF')"]
HINTS['remove', 1] = ['1', '2', '0']
HINTS['insert-before', 1] = ['1', '2', '0']

STRINGS = ["'abc'", "''", "'a b  c'", "'Hello World'", "'éß'", "xs:string('x')", "xs:NCName('nc')",
           "xs:token('t k')", "xs:untypedAtomic('ua')", "xs:anyURI('http://a/b')", "'12'", "'en'"]
HOMOG = ['integer', 'double', 'decimal', 'string', 'date', 'dayTimeDuration', 'yearMonthDuration', 'float',
         'untypedAtomic', 'boolean', 'short', 'anyURI', 'dateTime', 'time']
ELEMS = ['/r', '/r/a[1]', '/r/p:c', '/r/a[2]/a']
SMALL_INTS = ['1', '0', '2', '3', '-1', 'xs:short(2)', 'xs:unsignedByte(3)', 'xs:long(1)', '10']
DOUBLES = ['1e0', '2.5e0', "xs:double('NaN')", "xs:double('INF')", '-0e0', '3', '1.5', 'xs:float(2)',
           "xs:untypedAtomic('3')", '0e0', '-2e0']
MAPS = ['map{}', "map{'a': 1}", "map{1: 'x', 2: ('y', 'z')}", "map{'k': map{'n': ()}, 'a': [1, 2]}",
        "map{xs:date('2000-01-01'): true()}"]
ARRAYS = ['[]', '[1, 2, 3]', "['b', 'a']", '[(1, 2), ()]', "[[1], map{'a': 1}]", '[3, 1.5, 2e0]']
FUNC_EXPRS = ['fn:abs#1', 'fn:concat#2', 'fn:true#0', 'function($a) { $a }', "fn:substring(?, 2)", 'map:size#1']


def g_atomic_arg(r, name, ver):
    if name == 'string':
        return r.choice(STRINGS)
    if name == 'integer':
        return r.choice(SMALL_INTS)
    if name == 'double':
        return r.choice(DOUBLES)
    if name == 'numeric':
        if r.random() < 0.2:
            return r.choice(["xs:untypedAtomic('3')", "xs:untypedAtomic('-2.5')"])
        return r.choice(ATOMS[r.choice(NUMERIC_LABELS)] + DOUBLES)
    if name == 'anyAtomicType':
        return g_atom(r)[2]
    if name == 'QName':
        return r.choice(ATOMS['QName'] + ["fn:QName('', 'n')"])
    if name == 'duration':
        return r.choice(ATOMS['duration'] + ATOMS['dayTimeDuration'] + ATOMS['yearMonthDuration'] +
                        ["xs:dayTimeDuration('-PT5H30M')", "xs:duration('-P1M')"])
    if name == 'dayTimeDuration':
        return r.choice(ATOMS['dayTimeDuration'] + ["xs:dayTimeDuration('-PT5H')", "xs:dayTimeDuration('PT0S')",
                                                    "xs:dayTimeDuration('PT14H')"])
    if name in ATOMS:
        extra = {'dateTime': ["xs:dateTime('-0001-12-31T23:59:59.5Z')"], 'date': ["xs:date('1900-03-01-05:00')"],
                 'time': ["xs:time('24:00:00')", "xs:time('13:20:10.25+05:30')"]}.get(name, [])
        return r.choice(ATOMS[name] + extra)
    return g_atom(r)[2]


def g_item_arg(r, it, ver, depth=0):
    k = it[0]
    if k == 'atomic':
        return g_atomic_arg(r, it[1], ver)
    if k == 'item':
        x = r.random()
        if x < 0.5:
            return g_atom(r)[2]
        if x < 0.75:
            return r.choice(NODES)[3]
        if ver >= '3.1' and x < 0.9:
            return r.choice(MAPS + ARRAYS)
        if ver >= '3.0':
            return r.choice(FUNC_EXPRS[:5] if ver < '3.1' else FUNC_EXPRS)
        return g_atom(r)[2]
    if k == 'node':
        return r.choice(NODES)[3]
    if k == 'element':
        return r.choice(ELEMS) if it[1] is None else '()'
    if k == 'document':
        return '/'
    if k in ('text', 'comment', 'pi', 'attribute', 'namespace-node'):
        kk = {'namespace-node': 'namespace'}.get(k, k)
        return r.choice([n for n in NODES if n[1] == kk])[3]
    if k == 'function':
        if it[1] is None:
            return r.choice(FUNC_EXPRS[:5] if ver < '3.1' else FUNC_EXPRS)
        params = ', '.join('$a%d as %s' % (i, M.render(p, PREFIXES)) for i, p in enumerate(it[1]))
        ret = it[2]
        x = r.random()
        if ret == ST_ITEM_STAR and it[1] and x < 0.6:
            body = r.choice(['$a0', '($a0, $a%d)' % (len(it[1]) - 1), '$a%d' % (len(it[1]) - 1)])
        elif ret[0] == 'seq' and ret[1] == ['atomic', 'boolean'] and it[1] and x < 0.5:
            body = r.choice(['fn:exists($a0)', 'fn:count($a0) mod 2 = 1', 'fn:deep-equal($a0, 1)'])
        elif ret[0] == 'seq' and ret[1] == ['atomic', 'anyAtomicType'] and it[1] and x < 0.7:
            body = r.choice(['fn:count($a0)', 'fn:string-join(fn:data($a0) ! fn:string(.))', 'fn:data($a0)'])
        else:
            body = g_arg(r, ret, ver, None, depth + 1)
        return 'function(%s) as %s { %s }' % (params, M.render(ret, PREFIXES), body)
    if k == 'map':
        return r.choice(MAPS)
    if k == 'array':
        return r.choice(ARRAYS)
    return '()'


def g_arg(r, st, ver, hint, depth=0):
    if hint and r.random() < 0.8:
        return r.choice(hint)
    if st[0] == 'empty':
        return '()'
    occ = st[2]
    if occ == '':
        n = 1
    elif occ == '?':
        n = 0 if r.random() < 0.2 else 1
    elif occ == '*':
        n = r.choice([0, 1, 1, 2, 3])
    else:
        n = r.choice([1, 1, 2, 3])
    if n == 0:
        return '()'
    it = st[1]
    if it == ['atomic', 'anyAtomicType'] and n > 1 and r.random() < 0.75:
        lab = r.choice(HOMOG)
        parts = [g_atom(r, lab)[2] for _ in range(n)]
    elif it == ['item'] and n > 1 and r.random() < 0.5:
        lab = r.choice(HOMOG)
        parts = [g_atom(r, lab)[2] for _ in range(n)]
    else:
        parts = [g_item_arg(r, it, ver, depth) for _ in range(n)]
    if n == 1:
        return parts[0]
    return '(' + ', '.join(parts) + ')'


UNTYPED_ARGS = {'numeric': "xs:untypedAtomic('3')", 'double': "xs:untypedAtomic('2.5')",
                'integer': "xs:untypedAtomic('2')", 'string': "xs:untypedAtomic('abc')",
                'anyAtomicType': "xs:untypedAtomic('7')", 'decimal': "xs:untypedAtomic('1.5')"}
CTX_ITEMS = {'doc': '/', 'elem': '/r/a[1]', 'root-elem': '/r', 'attr': '/r/@a', 'text': '/r/a[1]/text()',
             'atomic': None, 'none': None}


NUMERIC_PROBES = ["xs:float('1.5')", "xs:double('1.5')", "xs:decimal('1.5')", "xs:integer('2')", "xs:short('2')",
                  "xs:float('-0')", "xs:float('INF')"]


def signatures(ver):
    """[(qname text, arity, signature text)] sorted"""
    sigs = E.PARSERS[ver].function_signatures
    out = []
    for (qn, arity), text in sigs.items():
        out.append((qn.qname, arity, text))
    out.sort()
    return out


def lookup_signature(ver, fn, arity):
    for (qn, ar), text in E.PARSERS[ver].function_signatures.items():
        if qn.qname == fn and ar == arity:
            return text
    return None


def g_sig_calls(r, ver, fn, arity, text, count):
    try:
        params, ret, variadic = M.parse_signature(text, NS)
    except M.ParseError:
        return [{'ver': ver, 'fn': fn, 'arity': arity, 'args': [], 'via': 'static', 'ctx': 'elem'}]
    local = fn.split(':', 1)[1]
    cases = []
    for c in range(count):
        args = []
        for i, p in enumerate(params):
            hint = HINTS.get((fn, i)) if (fn, i) in HINTS else HINTS.get((local, i))
            if c == 0 and p[0] == 'seq' and p[2] in ('?', '*') and not hint:
                # systematic probe: empty-sequence arguments wherever the signature allows them
                args.append('()')
            elif c == 1 and p[0] == 'seq' and p[1][0] == 'atomic' and p[1][1] in UNTYPED_ARGS and (i == 0 or not hint):
                # systematic probe: xs:untypedAtomic arguments (function conversion rules cast them)
                args.append(UNTYPED_ARGS[p[1][1]])
            elif c == 1 and hint:
                args.append(hint[0])
            else:
                args.append(g_arg(r, p, ver, hint))
        if variadic:
            for _ in range(r.randint(0, 2)):
                args.append(g_arg(r, params[-1], ver, None))
        vias = ['static', 'static']
        if ver >= '3.0':
            vias.append('dynamic')
        vias.append('api')
        via = vias[c % len(vias)] if c < len(vias) else r.choice(vias)
        ctx = r.choice(['elem', 'elem', 'doc', 'root-elem', 'attr', 'text']) if arity == 0 or r.random() < 0.2 \
            else 'elem'
        cases.append({'ver': ver, 'fn': fn, 'arity': arity, 'args': args, 'via': via, 'ctx': ctx})
    # systematic probe: every numeric representation where the signature takes any atomic or numeric value
    # (a function that passes its argument through must still return its declared type)
    for i, p in enumerate(params):
        if p[0] == 'seq' and p[1][0] == 'atomic' and p[1][1] in ('anyAtomicType', 'numeric'):
            for probe in NUMERIC_PROBES:
                args = []
                for k, q in enumerate(params):
                    hint = HINTS.get((fn, k)) if (fn, k) in HINTS else HINTS.get((local, k))
                    args.append(probe if k == i else (hint[0] if hint else g_arg(r, q, ver, hint)))
                cases.append({'ver': ver, 'fn': fn, 'arity': arity, 'args': args, 'via': 'static', 'ctx': 'elem'})
    return cases


def call_api(ver, fn, arity, argvals, item):
    parser = E.PARSERS[ver](namespaces=NS)
    ctx = XPathContext(root=node_tree(), item=item)
    func = parser.get_function(fn, arity)
    return func(*argvals, context=ctx)


def run_sig(case, out):
    ver, fn, arity, args, via = case['ver'], case['fn'], case['arity'], case['args'], case['via']
    sig = '%s#%d' % (fn, arity)
    text = lookup_signature(ver, fn, arity)
    if text is None:
        out.dim('undecided', 'signature-not-registered')
        out.nontrivial = False
        return
    out.dim('sig_reached:' + ver, sig)
    out.dim('sig_via', via)
    try:
        params, ret, variadic = M.parse_signature(text, NS)
    except M.ParseError as e:
        out.dim('undecided', 'signature-text-not-parsed')
        out.dim('sig_unparsed', sig)
        out.nontrivial = False
        out.obs = '%s: %s' % (text, e)
        return
    item = None
    cexpr = CTX_ITEMS.get(case.get('ctx', 'elem'))
    if cexpr:
        o = E.call(evalx, cexpr, ver)
        if o[0] == 'ok':
            item = as_list(o[1])[0]
    nargs = len(args)
    if via == 'static':
        expr = '%s(%s)' % (fn, ', '.join(args))
        o = E.call(evalx, expr, ver, None, item)
    elif via == 'dynamic':
        expr = '(%s#%d)(%s)' % (fn, nargs, ', '.join(args))
        o = E.call(evalx, expr, ver, None, item)
    else:
        expr = 'get_function(%r, %d)(%s)' % (fn, nargs, ', '.join(args))
        vals = []
        o = None
        for a in args:
            oa = E.call(evalx, a, ver, None, item)
            if oa[0] != 'ok':
                o = oa
                break
            v = oa[1]
            vals.append(v)
        if o is None:
            o = E.call(call_api, ver, fn, nargs, vals, item)
    out.dim('sig_calls', 'total')
    out.dim('sig_calls:' + ver, 'total')
    if o[0] != 'ok':
        out.dim('sig_outcome', o[0] + ':' + str(o[1]))
        out.nontrivial = False
        out.obs = '%s -> %s' % (expr, list(o))
        return
    res = o[1]
    out.dim('sig_success:' + ver, sig)
    out.dim('sig_calls', 'success')
    out.dim('sig_outcome', 'ok')
    out.dim('return_shape', M.shape(ret))
    val = as_list(res)
    items = [runtime_item(v) for v in val]
    m = M.match_seq(items, ret)
    out.dim('oracle_comparisons', 'signature-return')
    out.obs = '%s -> %s ; declared %s ; match=%s' % (expr, E.describe(val)[:4], M.render(ret, PREFIXES), m)
    if m is None:
        out.dim('undecided', 'return:' + M.shape(ret))
        return
    if m is False:
        if not items:
            cls = 'empty-sequence-returned'
        elif len(items) > 1 and ret[0] == 'seq' and ret[2] in ('', '?'):
            cls = 'more-than-one-item-returned'
        elif ret[0] == 'empty':
            cls = 'non-empty-returned'
        else:
            bad = [x for x in items if M.match_item(x, ret[1]) is False]
            x = bad[0] if bad else items[0]
            cls = 'item-type/' + (x[1] if x[0] in ('a', 'n') else {'f': 'function', 'm': 'map', 'r': 'array'}[x[0]])
        out.fail('C18/signature/%s/%s' % (fn, cls),
                 {'call': expr, 'version': ver, 'declared': text, 'returned': E.describe(val)[:6],
                  'returned_labels': items[:6]})


# ------------------------------------------------------------------ harness interface
PARTIALS = [('fn:substring', 3, ['2', '1']), ('fn:concat', 3, ["'b'", "'c'"]), ('fn:subsequence', 3, ['1', '1']),
            ('fn:replace', 3, ["'a'", "'b'"]), ('fn:translate', 3, ["'a'", "'b'"]), ('fn:index-of', 2, ['1']),
            ('fn:string-join', 2, ["','"]), ('fn:starts-with', 2, ["'a'"]), ('fn:round', 2, ['1']),
            ('fn:insert-before', 3, ['1', "'x'"]), ('fn:contains', 2, ["'a'"]), ('fn:tokenize', 2, ["','"])]


def run_fn_history(case, out):
    """the judgement on a function item does not depend on what happened to the item before: a named reference is
    judged against its own signature, partially applied through a variable (dynamic call with `?`), and the result
    judged against the signature that is left - with and without the first judgement"""
    ver, fn, arity, rest, first = case['ver'], case['fn'], case['arity'], case['rest'], case['first']
    text = lookup_signature(ver, fn, arity)
    if text is None:
        out.nontrivial = False
        return
    try:
        params, ret, variadic = M.parse_signature(text, NS)
    except M.ParseError:
        out.nontrivial = False
        return
    full = M.render(['seq', ['function', params, ret], ''], PREFIXES)
    left = M.render(['seq', ['function', params[:1], ret], ''], PREFIXES)
    part = '$f(?, %s)' % ', '.join(rest)
    probes = [('partial-against-remaining-signature', '%s instance of %s' % (part, left), True),
              ('partial-against-full-signature', '%s instance of %s' % (part, full), False),
              ('item-against-own-signature', '$f instance of %s' % full, True),
              ('partial-arity', 'function-arity(%s)' % part, 1)]
    pre = {'own-signature': '$f instance of %s' % full, 'any-function': '$f instance of function(*)',
           'treat': '$f treat as %s' % full, 'none': None}[first]
    for name, probe, expected in probes:
        body = probe if pre is None else '(count((%s)), %s)[2]' % (pre, probe)
        o = E.call(evalx, 'let $f := %s#%d return %s' % (fn, arity, body), ver)
        out.dim('fn_history_probe', name)
        out.dim('fn_history_first', first)
        got = o[1] if o[0] == 'ok' else list(o[:2])
        if isinstance(got, list) and len(got) == 1:
            got = got[0]
        if got != expected:
            # the same probe without anything before it: a wrong answer there is not a history effect
            o0 = E.call(evalx, 'let $f := %s#%d return %s' % (fn, arity, probe), ver)
            g0 = o0[1] if o0[0] == 'ok' else list(o0[:2])
            if isinstance(g0, list) and len(g0) == 1:
                g0 = g0[0]
            key = 'C18/function-item-history/%s/%s' % (name, 'depends-on-earlier-judgement' if g0 == expected else 'wrong-on-fresh-item')
            out.fail(key, {'function': '%s#%d' % (fn, arity), 'version': ver, 'before': pre, 'probe': probe,
                           'expected': expected, 'got': got, 'fresh': g0})
    out.obs = '%s#%d first=%s' % (fn, arity, first)


def check_case(kind, case):
    out = Outcome()
    if kind == 'fn-history':
        run_fn_history(case, out)
        return out
    if kind == 'judge':
        run_judge(case, out)
    elif kind == 'subtype':
        run_subtype(case, out)
    elif kind == 'sig':
        run_sig(case, out)
    return out


def shrink(kind, case):
    if kind == 'judge':
        v = case['v']
        if len(v) > 1:
            for i in range(len(v)):
                c = dict(case)
                c['v'] = v[:i] + v[i + 1:]
                yield c
        if case.get('sp') != 'none':
            c = dict(case)
            c['text'] = M.render(case['t'], PREFIXES)
            c['sp'] = 'none'
            yield c
        if case['via'] != 'inline':
            c = dict(case)
            c['via'] = 'inline'
            yield c
    elif kind == 'subtype':
        w = case['w']
        for i in range(len(w)):
            if len(w) > 1:
                c = dict(case)
                c['w'] = w[:i] + w[i + 1:]
                yield c
        t = case['types']
        if len(t) > 2:
            for i in range(len(t)):
                c = dict(case)
                c['types'] = t[:i] + t[i + 1:]
                yield c
    elif kind == 'sig':
        if case['via'] != 'static':
            c = dict(case)
            c['via'] = 'static'
            yield c


def run(h):
    r = h.rng
    grid = list(grid_cases())
    for c in (grid[h.shard::h.nshards] if h.nshards > 1 else grid):
        h.case('judge', c)
    h.extra['grid_cases'] = len(grid)
    if h.shard == 0:
        for c in array_function_cases():
            h.case('judge', c)
    if h.shard == 0:
        for fn, arity, rest in PARTIALS:
            for ver in ('3.0', '3.1'):
                for first in ('none', 'own-signature', 'any-function', 'treat'):
                    h.case('fn-history', {'ver': ver, 'fn': fn, 'arity': arity, 'rest': rest, 'first': first})
    for _ in range(h.n(9000)):
        h.case('judge', g_judge(r))
    for c in fixed_subtype_cases():
        h.case('subtype', c)
    for _ in range(h.n(3000)):
        h.case('subtype', g_subtype(r))
    per_sig = 12
    for ver in VERS:
        sigs = signatures(ver)
        for idx, (fn, arity, text) in enumerate(sigs):
            for c in g_sig_calls(r, ver, fn, arity, text, h.n(per_sig)):
                h.case('sig', c)
    # report signatures never returning successfully (inconclusive per signature, not held)
    never = []
    for ver in VERS:
        ok = h.counters.get('sig_success:' + ver, {})
        for fn, arity, _ in signatures(ver):
            s = '%s#%d' % (fn, arity)
            if s not in ok:
                never.append('%s %s' % (ver, s))
    h.extra['signatures_without_successful_call'] = never
    h.extra['signatures_total'] = sum(len(signatures(v)) for v in VERS)
    if h.shard == 0:
        h.extra['signatures_reached'] = sum(len(h.counters.get('sig_reached:' + v, {})) for v in VERS)
        h.extra['signatures_with_successful_call'] = sum(len(h.counters.get('sig_success:' + v, {})) for v in VERS)


def floors(v):
    reasons = []
    if v.got('oracle_comparisons', 'instance-of') < 1500:
        reasons.append('fewer than 1500 instance-of judgements compared with the model')
    if v.got('oracle_comparisons', 'treat-as') < 1500:
        reasons.append('fewer than 1500 treat-as judgements compared with the model')
    if v.got('oracle_comparisons', 'match_sequence_type') < 1500:
        reasons.append('fewer than 1500 match_sequence_type judgements compared with the model')
    for verdict in ('True', 'False'):
        if v.got('model_verdict', verdict) < 300:
            reasons.append('model verdict %s seen fewer than 300 times' % verdict)
    for vc in ('atomic', 'element', 'attribute', 'document', 'text', 'comment', 'pi', 'namespace', 'function',
               'map', 'array', 'empty', 'mixed'):
        if v.got('value_class', vc) < 10:
            reasons.append('value class %s judged fewer than 10 times' % vc)
    if v.got('subtype_checks', 'reflexive') < 1000:
        reasons.append('fewer than 1000 reflexivity checks')
    if v.got('subtype_checks', 'transitive-premise-held') < 50:
        reasons.append('fewer than 50 transitivity premises held')
    if v.got('subtype_checks', 'soundness-witness-in-S') < 100:
        reasons.append('fewer than 100 soundness witnesses matched S')
    for ver, floor_reached, floor_ok in (('2.0', 140, 90), ('3.0', 200, 130), ('3.1', 250, 160)):
        reached = len(v.counters.get('sig_reached:' + ver, {}))
        ok = len(v.counters.get('sig_success:' + ver, {}))
        if reached < floor_reached:
            reasons.append('only %d signatures of the %s parser were reached' % (reached, ver))
        if ok < floor_ok:
            reasons.append('only %d signatures of the %s parser returned successfully' % (ok, ver))
    if v.got('sig_calls', 'success') < 1000:
        reasons.append('fewer than 1000 successful built-in function calls checked')
    return reasons
