"""Neutral XML document spec -> twin xml.etree / lxml trees.

A spec is plain JSON:
  doc   = {"pre": [misc...], "root": elem, "post": [misc...]}
  elem  = {"k": "e", "tag": "local" | "{uri}local", "ns": [[prefix, uri], ...]   (declarations here, '' = default),
           "a": [[name, value], ...], "c": [child...]}
  text  = {"k": "t", "v": "..."}      comment = {"k": "c", "v": "..."}     pi = {"k": "p", "t": target, "v": "..."}
The spec is the ground truth for the reference XDM model (rv/models/xdm.py).
"""
import xml.etree.ElementTree as ET
from xml.sax.saxutils import escape, quoteattr

import lxml.etree as LE

# p3's URI extends p1's: a wildcard test that compares URIs by prefix confuses the two
NS_POOL = {'p1': 'urn:a', 'p2': 'urn:b', 'p3': 'urn:ab', 'd': 'urn:d'}
TAGS = ['a', 'b', 'ca', 'c', 'x']      # 'ca' ends with another tag ('a'): suffix tests of names
PI_TARGETS = ['pi', 'tgt', 'exp', 'map', 'text', 'if', 'xml-stylesheet', 'node', 'item', 'a', 'b']   # 'a', 'b' are element tags too
TEXTS = ['t', 'u', 'tt', ' ', 'x y', '1', '42', 'a&b', '<', "q'\"", '\n ', 'é', '\U0001F600z']


def gen_doc(r, max_nodes=40, max_depth=5, ns=True, misc=True, doc_misc=True, pi_targets=None,
            empty_text=False):
    """random document spec; shape-biased to nested same-name elements"""
    budget = [r.randint(1, max_nodes)]
    tags = TAGS[:r.randint(2, 4)]
    declared_default = [False]
    targets = pi_targets or PI_TARGETS

    def g_misc():
        if r.random() < 0.5:
            return {'k': 'c', 'v': r.choice(['c1', 'note', ' ', 'x-y', ''])}
        return {'k': 'p', 't': r.choice(targets), 'v': r.choice(['d', 'e f', '', 'a="1"'])}

    def g_elem(depth, inherited):
        budget[0] -= 1
        decl = []
        scope = dict(inherited)
        if ns and r.random() < 0.25:
            for pfx in r.sample(['p1', 'p2', 'p3', ''], r.randint(1, 2)):
                uri = NS_POOL['d'] if pfx == '' else NS_POOL[pfx]
                if scope.get(pfx) != uri and not (uri == '' and not scope.get(pfx)):
                    decl.append([pfx, uri])
                    scope[pfx] = uri
        local = r.choice(tags)
        x = r.random()
        if ns and x < 0.2 and any(p for p in scope if p and scope[p]):
            pfx = r.choice(sorted(p for p in scope if p and scope[p]))
            tag = '{%s}%s' % (scope[pfx], local)
        elif scope.get(''):
            tag = '{%s}%s' % (scope[''], local)
        else:
            tag = local
        attrs = []
        names = r.sample(['n', 's', 'q'], r.choice([0, 0, 1, 1, 2, 3]))
        for nm in names:
            if nm == 'n':
                attrs.append(['n', str(r.randint(0, 4))])
            elif nm == 's':
                attrs.append(['s', r.choice(['x', 'y', 'x y', ''])])
            else:
                if ns and scope.get('p1') and r.random() < 0.4:
                    attrs.append(['{%s}q' % scope['p1'], r.choice(['1', 'v'])])
                elif ns and scope.get('p3') and r.random() < 0.4:
                    attrs.append(['{%s}q' % scope['p3'], r.choice(['1', 'v'])])
                else:
                    attrs.append(['q', r.choice(['1', 'v', 'w'])])
        children = []
        if depth < max_depth:
            nkids = r.choice([0, 0, 1, 2, 2, 3, 4])
            for _ in range(nkids):
                if budget[0] <= 0:
                    break
                x = r.random()
                if x < 0.62:
                    children.append(g_elem(depth + 1, scope))
                elif x < 0.82:
                    if children and children[-1]['k'] == 't':
                        continue
                    txt = r.choice(TEXTS)
                    if empty_text and r.random() < 0.1:
                        txt = ''
                    children.append({'k': 't', 'v': txt})
                    budget[0] -= 1
                elif misc:
                    children.append(g_misc())
                    budget[0] -= 1
        elif r.random() < 0.5:
            children.append({'k': 't', 'v': r.choice(TEXTS)})
        return {'k': 'e', 'tag': tag, 'ns': decl, 'a': attrs, 'c': children}

    root = g_elem(1, {})
    pre = [g_misc() for _ in range(r.choice([0, 0, 0, 1, 2]))] if doc_misc else []
    post = [g_misc() for _ in range(r.choice([0, 0, 0, 1]))] if doc_misc else []
    return {'pre': pre, 'root': root, 'post': post}


def all_prefixes(spec):
    """prefix -> uri over all declarations (the generator keeps prefixes globally consistent)"""
    out = {}

    def walk(e):
        for pfx, uri in e['ns']:
            if pfx and uri:
                out[pfx] = uri
        for c in e['c']:
            if c['k'] == 'e':
                walk(c)
    walk(spec['root'])
    return out


def count_nodes(spec):
    n = [1 + len(spec['pre']) + len(spec['post'])]

    def walk(e):
        n[0] += 1 + len(e['a'])
        for c in e['c']:
            if c['k'] == 'e':
                walk(c)
            else:
                n[0] += 1
    walk(spec['root'])
    return n[0]


# ------------------------------------------------------------------ serialisation (for lxml / libxml2)
def _qname(tag, scope):
    """Clark name -> lexical QName under `scope` (prefix -> uri); assumes a prefix exists"""
    if tag[0] != '{':
        return tag
    uri, local = tag[1:].split('}')
    if scope.get('') == uri:
        return local
    for pfx in sorted(scope):
        if pfx and scope[pfx] == uri:
            return '%s:%s' % (pfx, local)
    raise ValueError('no prefix for %s' % tag)


def _attr_qname(name, scope):
    if name[0] != '{':
        return name
    uri, local = name[1:].split('}')
    for pfx in sorted(scope):
        if pfx and scope[pfx] == uri:
            return '%s:%s' % (pfx, local)
    raise ValueError('no prefix for attribute %s' % name)


def serialize(spec):
    out = []

    def misc(m):
        if m['k'] == 'c':
            out.append('<!--%s-->' % m['v'])
        else:
            out.append('<?%s%s?>' % (m['t'], (' ' + m['v']) if m['v'] else ''))

    def elem(e, scope):
        scope = dict(scope)
        for pfx, uri in e['ns']:
            scope[pfx] = uri
        name = _qname(e['tag'], scope)
        out.append('<' + name)
        for pfx, uri in e['ns']:
            out.append(' xmlns%s=%s' % ((':' + pfx) if pfx else '', quoteattr(uri)))
        for an, av in e['a']:
            out.append(' %s=%s' % (_attr_qname(an, scope), quoteattr(av, {'\n': '&#10;', '\t': '&#9;'})))
        if not e['c']:
            out.append('/>')
            return
        out.append('>')
        for c in e['c']:
            if c['k'] == 'e':
                elem(c, scope)
            elif c['k'] == 't':
                out.append(escape(c['v']).replace('\r', '&#13;'))
            else:
                misc(c)
        out.append('</%s>' % name)

    for m in spec['pre']:
        misc(m)
    elem(spec['root'], {})
    for m in spec['post']:
        misc(m)
    return ''.join(out)


# ------------------------------------------------------------------ tree builders
class Twin:
    """a concrete tree plus the mapping spec path -> wrapped object"""
    def __init__(self, lib, root_elem, tree, objs):
        self.lib = lib
        self.root_elem = root_elem
        self.tree = tree
        self.objs = objs            # spec-path tuple -> element / comment / PI object


def build_et(spec):
    """xml.etree tree built programmatically (text None vs '' preserved; comments/PIs kept).
    Document-level pre/post siblings cannot be represented by ElementTree and are dropped."""
    objs = {}

    def make(e, path):
        el = ET.Element(e['tag'], dict((k, v) for k, v in e['a']))
        objs[path] = el
        last = None
        for i, c in enumerate(e['c']):
            if c['k'] == 't':       # the generator never emits two adjacent text chunks
                if last is None:
                    el.text = c['v']
                else:
                    last.tail = c['v']
                continue
            if c['k'] == 'e':
                ch = make(c, path + (i,))
            elif c['k'] == 'c':
                ch = ET.Comment(c['v'])
                objs[path + (i,)] = ch
            else:
                ch = ET.ProcessingInstruction(c['t'], c['v'] if c['v'] else None)
                objs[path + (i,)] = ch
            el.append(ch)
            last = ch
        return el

    root = make(spec['root'], ())
    return Twin('et', root, ET.ElementTree(root), objs)


def build_lxml(spec):
    """lxml tree parsed from the serialisation, so libxml2 sees exactly this document"""
    text = serialize(spec)
    parser = LE.XMLParser(remove_blank_text=False, remove_comments=False, remove_pis=False,
                          resolve_entities=False, strip_cdata=False)
    root = LE.fromstring(text.encode('utf-8'), parser)
    objs = {}

    def walk(el, e, path):
        objs[path] = el
        kids = list(el)
        k = 0
        for i, c in enumerate(e['c']):
            if c['k'] == 't':
                continue
            ch = kids[k]
            k += 1
            if c['k'] == 'e':
                walk(ch, c, path + (i,))
            else:
                objs[path + (i,)] = ch
        if k != len(kids):
            raise ValueError('lxml tree does not match the spec')
    walk(root, spec['root'], ())
    tw = Twin('lxml', root, root.getroottree(), objs)
    pre = list(reversed(list(root.itersiblings(preceding=True))))
    post = list(root.itersiblings())
    for i, m in enumerate(pre):
        objs[('pre', i)] = m
    for i, m in enumerate(post):
        objs[('post', i)] = m
    if len(pre) != len(spec['pre']) or len(post) != len(spec['post']):
        raise ValueError('lxml document-level siblings do not match the spec')
    return tw
