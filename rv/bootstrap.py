"""Put the repository under test first on sys.path.

RV_REPO (default /repo) selects the tree; the self-test points it at scratch copies
holding seeded breaks.  Must be imported before anything imports `elementpath`.
"""
import os
import sys

REPO = os.path.abspath(os.environ.get('RV_REPO', '/repo'))
VERIF = os.path.dirname(os.path.dirname(os.path.abspath(__file__)))

if 'elementpath' in sys.modules:  # pragma: no cover
    raise RuntimeError("rv.bootstrap imported after elementpath")
sys.path.insert(0, REPO)
sys.dont_write_bytecode = False  # PYTHONPYCACHEPREFIX (set by ./check) keeps pycs out of the repo

# the guard for optional repository hooks (none are needed at present)
os.environ.setdefault('ELEMENTPATH_VERIF', '1')


def assert_repo():
    import elementpath
    got = os.path.dirname(os.path.dirname(os.path.abspath(elementpath.__file__)))
    if os.path.realpath(got) != os.path.realpath(REPO):
        raise RuntimeError("elementpath imported from %s, expected %s" % (got, REPO))
    return elementpath
