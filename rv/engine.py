"""Boundary helpers around the real elementpath API: outcome capture and value description.

Everything the checks observe goes through `call()` so that an exception coming out of the
library is an *observation* (classified), never a crash of the harness.
"""
import math
import os
import traceback
from decimal import Decimal

from . import bootstrap  # noqa: F401
from .core import CpuBudget

import elementpath
from elementpath import ElementPathError, XPath1Parser, XPath2Parser, XPathContext
from elementpath import datatypes as dt
from elementpath.xpath30 import XPath30Parser
from elementpath.xpath31 import XPath31Parser
from elementpath.xpath_nodes import XPathNode
from elementpath.xpath_tokens import XPathMap, XPathArray, XPathFunction

PARSERS = {'1.0': XPath1Parser, '2.0': XPath2Parser, '3.0': XPath30Parser, '3.1': XPath31Parser}
REPO_PKG = os.path.join(bootstrap.REPO, 'elementpath') + os.sep


class SelfDeadlock(BaseException):
    pass


def where(exc):
    """innermost repository frame of a traceback as module.function"""
    tb = traceback.extract_tb(exc.__traceback__)
    for fr in reversed(tb):
        if fr.filename.startswith(REPO_PKG):
            mod = fr.filename[len(REPO_PKG):].rsplit('.', 1)[0].replace(os.sep, '.')
            return '%s.%s' % (mod, fr.name)
    return 'outside-repo'


def call(fn, *args, **kwargs):
    """-> ('ok', value) | ('err', code, classname) | ('exc', typename, where)"""
    try:
        return ('ok', fn(*args, **kwargs))
    except ElementPathError as e:
        code = e.code or ''
        if code.startswith('err:'):
            code = code[4:]
        return ('err', code, type(e).__name__)
    except (CpuBudget, SelfDeadlock, KeyboardInterrupt):
        raise
    except RecursionError as e:
        return ('exc', 'RecursionError', where(e))
    except BaseException as e:  # noqa
        return ('exc', type(e).__name__, where(e))


def fmt_double(x):
    if x != x:
        return 'NaN'
    if x == math.inf:
        return 'INF'
    if x == -math.inf:
        return '-INF'
    if x == 0:
        return '-0' if math.copysign(1, x) < 0 else '0'
    return repr(float(x))


INT_LABELS = [
    (dt.Byte, 'byte'), (dt.Short, 'short'), (dt.Int, 'int'), (dt.Long, 'long'),
    (dt.UnsignedByte, 'unsignedByte'), (dt.UnsignedShort, 'unsignedShort'),
    (dt.UnsignedInt, 'unsignedInt'), (dt.UnsignedLong, 'unsignedLong'),
    (dt.PositiveInteger, 'positiveInteger'), (dt.NonNegativeInteger, 'nonNegativeInteger'),
    (dt.NegativeInteger, 'negativeInteger'), (dt.NonPositiveInteger, 'nonPositiveInteger'),
]


def type_label(v):
    """ground-truth-ish dynamic type label of an atomic value as the library represents it"""
    if isinstance(v, bool):
        return 'boolean'
    if isinstance(v, int):
        t = type(v)
        if t is int or t is dt.Integer:
            return 'integer'
        for cls, name in INT_LABELS:
            if t is cls:
                return name
        return 'integer:' + t.__name__
    if isinstance(v, dt.Float):
        return 'float'
    if isinstance(v, float):
        return 'double'
    if isinstance(v, Decimal):
        return 'decimal'
    if isinstance(v, dt.UntypedAtomic):
        return 'untypedAtomic'
    if isinstance(v, str):
        t = type(v)
        if t is str:
            return 'string'
        return {'NormalizedString': 'normalizedString', 'XsdToken': 'token', 'Language': 'language',
                'Name': 'Name', 'NCName': 'NCName', 'NMToken': 'NMTOKEN', 'Id': 'ID',
                'Idref': 'IDREF', 'Entity': 'ENTITY'}.get(t.__name__, 'string:' + t.__name__)
    return type(v).__name__


def describe(v, depth=0):
    """JSON-able structural description (type label + canonical text) of an XDM value"""
    if depth > 12:
        return ['...']
    if isinstance(v, (list, tuple)):
        return [describe(x, depth + 1) for x in v]
    if v is None:
        return None
    if isinstance(v, bool):
        return ['boolean', 'true' if v else 'false']
    if isinstance(v, dt.Float):
        return ['float', fmt_double(float(v))]
    if isinstance(v, float):
        return ['double', fmt_double(v)]
    if isinstance(v, int):
        return [type_label(v), str(int(v))]
    if isinstance(v, Decimal):
        if v == v.to_integral_value():
            s = str(int(v))
        else:
            s = format(v.normalize(), 'f')
        return ['decimal', s]
    if isinstance(v, dt.UntypedAtomic):
        return ['untypedAtomic', v.value]
    if isinstance(v, str):
        return [type_label(v), str(v)]
    if isinstance(v, XPathNode):
        return ['node', type(v).__name__, getattr(v, 'position', None)]
    if isinstance(v, XPathMap):
        try:
            return ['map', [[describe(k, depth + 1), describe(x, depth + 1)] for k, x in v.items()]]
        except Exception as e:
            return ['map', 'unreadable:%s' % type(e).__name__]
    if isinstance(v, XPathArray):
        try:
            return ['array', [describe(x, depth + 1) for x in v.items()]]
        except Exception as e:
            return ['array', 'unreadable:%s' % type(e).__name__]
    if isinstance(v, XPathFunction):
        return ['function', getattr(v, 'name', None) and str(v.name), getattr(v, 'arity', None)]
    try:
        return [type(v).__name__, str(v)]
    except Exception as e:
        return [type(v).__name__, 'unprintable:%s' % type(e).__name__]


def describe_outcome(o):
    if o[0] == 'ok':
        return ['ok', describe(o[1])]
    return list(o)


def evaluate(expr, version='3.1', root=None, item=None, variables=None, namespaces=None, **kw):
    """parse + evaluate through the token API (keeps XPathNode identity, arrays, maps)"""
    parser_kw = kw.pop('parser_kw', {})
    parser = PARSERS[version](namespaces=namespaces, **parser_kw)
    tok = parser.parse(expr)
    if root is None and item is None:
        ctx = None
    else:
        ctx = XPathContext(root=root, item=item, variables=variables, namespaces=namespaces, **kw)
    return tok.evaluate(ctx)


def xselect(expr, version='3.1', root=None, **kw):
    return elementpath.select(root, expr, parser=PARSERS[version], **kw)
