#!/venv/bin/python
"""Development-time helper: list (and with --write remove) `known` entries whose pinned witness no longer
reproduces on the current /repo (i.e. the defect has been repaired)."""
import importlib, json, os, signal, sys
V = os.path.dirname(os.path.dirname(os.path.abspath(__file__)))
sys.path.insert(0, V)
from rv import bootstrap, core
signal.signal(signal.SIGVTALRM, core._on_vtalrm)
d = json.load(open(V + '/known_findings.json'))
keep, gone = [], []
mods = {}
for e in d['findings']:
    if e.get('status') != 'known':
        keep.append(e); continue
    p = e['property']
    try:
        mods.setdefault(p, importlib.import_module('rv.checks.' + p.lower()))
        with core.cpu_limit(60):
            out = mods[p].check_case(e['witness']['kind'], e['witness']['case'])
        hit = any(k == e['key'] for k, _ in out.fails)
    except core.CpuBudget:
        hit = True
    except Exception as ex:
        print('ERROR replaying', e['key'], repr(ex)[:100]); hit = True
    (keep if hit else gone).append(e)
for e in gone:
    print('no longer reproduces:', e['key'])
if '--write' in sys.argv:
    d['findings'] = keep
    json.dump(d, open(V + '/known_findings.json', 'w'), indent=1)
    print('removed', len(gone))
