#!/bin/sh
# tools/sweep.sh <tier> <seed...>  : run every claimed check, print one line per run (+ violations)
tier="$1"; shift
cd /verif
for seed in "$@"; do
  for c in $(python3 -c "import json;print(' '.join(x['property_id'] for x in json.load(open('MANIFEST.json'))['checks']))"); do
    out=$(VERIF_SEED=$seed ./check $c $tier 2>&1); rc=$?
    echo "$out" | grep -v "^KNOWN-FINDING" | grep "seed=\|VIOLATION\|INCONCLUSIVE\|Traceback" | cut -c1-220 | sed "s/^/[rc=$rc] /"
  done
done
