#!/usr/bin/env python3
"""Fill DESIGN.md's seeded-change table (between the SEEDED-TABLE markers) from seeded/*/meta.json."""
import json
import os
import re

V = os.path.dirname(os.path.dirname(os.path.abspath(__file__)))


def first_sentence(notes):
    t = ' '.join(notes.split())
    t = re.sub(r'[`*#|]', '', t)
    return (t[:150] + '...') if len(t) > 150 else t


def site(patch):
    files = re.findall(r'^\+\+\+ b/(\S+)', patch, re.M)
    return ', '.join(sorted({f.replace('elementpath/', '') for f in files}))


def main():
    rows = ['| id | file(s) changed | suite with change | demo with/without | caught by (quick) | violation keys (first) |',
            '|---|---|---|---|---|---|']
    n = caught = 0
    for mid in sorted(os.listdir(V + '/seeded')):
        d = os.path.join(V, 'seeded', mid)
        mp = os.path.join(d, 'meta.json')
        if not os.path.exists(mp):
            continue
        m = json.load(open(mp))
        n += 1
        caught += bool(m['caught_by'])
        keys = []
        for c in m['caught_by']:
            keys += m['checks'][c]['violation_keys'][:2]
        rows.append('| %s | %s | %s | %d / %d | %s | %s |' % (
            mid, site(open(os.path.join(d, 'patch.diff')).read()),
            re.sub(r' in [\d.]+.*', '', m['test_suite_with_change']),
            m['demo_exit_with_change'], m['demo_exit_without_change'],
            ', '.join(m['caught_by']) or '**missed**', '; '.join('`%s`' % k[:60] for k in keys[:3])))
    rows.append('')
    rows.append('%d seeded changes, %d caught by at least one registered quick check.' % (n, caught))
    p = os.path.join(V, 'DESIGN.md')
    s = open(p).read()
    s = re.sub(r'(<!-- SEEDED-TABLE-BEGIN -->\n).*?(<!-- SEEDED-TABLE-END -->)',
               lambda mo: mo.group(1) + '\n'.join(rows) + '\n' + mo.group(2), s, flags=re.S)
    open(p, 'w').write(s)
    print('%d rows, %d caught' % (n, caught))


if __name__ == '__main__':
    main()
