#!/usr/bin/env python3
"""Parallel sweep (development helper): every claimed check x every given seed, quick tier, against /repo.

  tools/psweep.py [-j N] [--tier quick] [--only C01,C02] seed...

Evidence/replays of these runs go to a scratch directory (RV_OUT) so that concurrent runs do not overwrite each other;
replay files of violations are kept under /tmp/psweep/<seed>/replays for inspection.
"""
import concurrent.futures as cf
import json
import os
import subprocess
import sys

V = os.path.dirname(os.path.dirname(os.path.abspath(__file__)))


def one(c, seed, tier):
    out = '/tmp/psweep/%s' % seed
    os.makedirs(out, exist_ok=True)
    env = dict(os.environ, VERIF_SEED=str(seed), RV_OUT=out)
    if tier == 'thorough':
        env['RV_SHARDS'] = env.get('RV_SHARDS', '16')
    r = subprocess.run(['./check', c, tier], cwd=V, env=env, capture_output=True, text=True)
    lines = [ln[:230] for ln in (r.stdout + r.stderr).splitlines()
             if not ln.startswith('KNOWN-FINDING') and any(k in ln for k in ('seed=', 'VIOLATION', 'INCONCLUSIVE', 'Traceback', '(also)'))]
    return c, seed, r.returncode, lines


def main():
    a = sys.argv[1:]
    j, tier, only = 8, 'quick', None
    if '-j' in a:
        i = a.index('-j'); j = int(a[i + 1]); del a[i:i + 2]
    if '--tier' in a:
        i = a.index('--tier'); tier = a[i + 1]; del a[i:i + 2]
    if '--only' in a:
        i = a.index('--only'); only = a[i + 1].split(','); del a[i:i + 2]
    checks = [x['property_id'] for x in json.load(open(os.path.join(V, 'MANIFEST.json')))['checks']]
    if only:
        checks = [c for c in checks if c in only]
    bad = 0
    with cf.ThreadPoolExecutor(j) as ex:
        futs = [ex.submit(one, c, s, tier) for s in a for c in checks]
        for f in cf.as_completed(futs):
            c, seed, rc, lines = f.result()
            if rc != 0:
                bad += 1
            for ln in lines:
                if rc != 0 or 'seed=' not in ln or '--verbose' in sys.argv:
                    print('[rc=%d seed=%s] %s' % (rc, seed, ln), flush=True)
    print('runs: %d, non-zero: %d' % (len(futs), bad))


if __name__ == '__main__':
    main()
