#!/bin/sh
# tools/adopt_mut.sh <round-dir> <Cnn> <src-letter>=<dst-letter>...   copy an agent's output into seeded/
rd="$1"; c="$2"; shift 2
for m in "$@"; do s=${m%=*}; d=${m#*=}; mkdir -p seeded/$c-$d; cp $rd/$c/out/$s/patch.diff $rd/$c/out/$s/demo.py $rd/$c/out/$s/notes.md seeded/$c-$d/; done
