#!/usr/bin/env python3
"""Regenerates MANIFEST.json from the table below (run from /verif)."""
import json
import os

HERE = os.path.dirname(os.path.dirname(os.path.abspath(__file__)))

# property id -> (level category, technique, level text, level note, design section)
CHECKS = {
    'C01': ('exploration',
            'differential runtime monitor: reference XDM model + libxml2 + cross-version + public-API projection on generated documents/paths',
            'Every generated (document, path expression, context item, tree library, root kind) is evaluated by the four parser '
            'versions through the token API (node identity kept) and compared with a reference XDM axis/predicate model, with '
            'libxml2 where it applies (arbitration: a model mismatch only counts when libxml2 agrees with the model), and the public '
            'select/iter_select/Selector forms (document, element, comment and PI context items) are compared with the documented projection; chains of 1100-2600 nested elements have node lists known by construction. Held on the cases executed.',
            'Trusted: rv/models/xdm.py, libxml2 via lxml 6.1.3; absolute paths only on trees with a document node; namespace-node order unconstrained.',
            'DESIGN.md section 4 (C01)'),
    'C02': ('exploration',
            'invariant-at-a-quiescent-point monitor on the built node tree + set-model monitor of the identity/order operators',
            'For every generated (document, tree library, root kind, fragment, namespaces argument, order of materialising the lazy '
            'namespace/attribute nodes) the built XPath node tree is walked against the neutral document spec: one node per '
            'element/attribute/in-scope namespace/comment/PI/text chunk, parent/children links, wrapped objects and the elements map, '
            'unique strictly increasing positions (element < its namespace nodes < its attributes < its children), iter() order, string '
            'values; then is, <<, >>, union, intersect, except, root, innermost, outermost on nodes of that tree are compared with the set model.',
            'Trusted: rv/gen_xml.py spec and twin builders, rv/models/xdm.py; relative order among the namespace nodes of one element unconstrained.',
            'DESIGN.md section 4 (C02)'),
    'C03': ('exploration',
            'outcome-classifying runtime monitor at the API boundary + parser-state invariant after every parse + long-lived-vs-fresh parser history oracle + CPU-time watchdog',
            'A fixed corpus (valid seeds, token-level mutations, random strings, an ill-typed call matrix over every registered function and an '
            'ill-typed operator matrix) is parsed and evaluated by the four parser versions in six dynamic contexts (ElementTree and lxml documents, the latter with a default namespace); every outcome is classified '
            '(value | ElementPathError with code | any other exception, keyed by type and innermost library frame | CPU budget exceeded); after '
            'every parse() the parser instance must equal its post-__init__ state; one long-lived parser per history must answer every source '
            'like a fresh parser.',
            'The corpus is fixed per tier/shard (VERIF_SEED only composes the parse histories): escapes are so numerous in the unchanged tree that '
            'only a bounded corpus saturates, see DESIGN.md. Hangs are judged by CPU time (10 s per source), never wall time.',
            'DESIGN.md section 4 (C03)'),
    'C04': ('exploration',
            'differential runtime monitor: independent EBNF precedence/associativity reference vs the parsed token trees; layout invariance; source round trip; hash-seed child processes',
            'All ordered pairs of operators of each XPath version (plus random 2-4 operator sequences with unary, postfix, call and binder '
            'decorations) are parsed flat and fully parenthesised as an independent EBNF transcription prescribes and the token trees compared '
            '(or both must be syntax errors); the same token sequences are re-rendered with random whitespace and (: comments :) and must give '
            'the same tree; t.source must re-parse to the same tree and value; a fixed corpus is tokenised and parsed in child interpreters '
            'under different PYTHONHASHSEED values and compared.',
            'Trusted: rv/models/grammar.py; if/for/let/some/every in operand position are not decided (not operators of the property); '
            'Token.tree does not show occurrence indicators, covered through value comparison only.',
            'DESIGN.md section 4 (C04)'),
    'C05': ('exploration',
            'before/after snapshot monitors (input tree, caller variable values incl. timezones / map and array contents, namespaces, context variable table) + reused-vs-fresh repeatability oracle over evaluation histories + lexical-scope templates',
            'Every evaluation of a corpus of expression templates (all call forms, ElementTree and lxml, implicit timezones) is bracketed by deep '
            'snapshots of everything the caller handed in; one Selector and one parsed token are reused along histories of 3-7 evaluations over '
            'several documents, context items, variable maps and timezones and each answer is compared with a freshly parsed expression on a '
            'fresh context; binder templates (for/let/some/every/inline-function and HOF parameters, shadowing, re-binding after closure '
            'creation, recursive activations) with and without an outer binding of the same name have outcomes known from their lexical '
            'structure; the five entry points (select, iter_select, Selector.select, Selector.iter_select, token.get_results) are run on '
            'fresh inputs of the same case, with implicit timezones and caller-supplied context position/size, and must agree.',
            'Trusted: the structural value description (rv/engine.describe + timezone fields); expressions depending on the current time or randomness excluded.',
            'DESIGN.md section 4 (C05)'),
    'C06': ('exploration',
            'runtime reference-model monitor: exact-rational / IEEE model of F&O arithmetic over a boundary-value cross product',
            'All six binary operators over the 4x4 numeric type matrix, unary +/-, abs/floor/ceiling/round/round-half-to-even with '
            'precisions, operands as literals, constructors, variables and untyped node content, for the 1.0-3.1 parsers, are '
            'evaluated by the real engine and compared (value, sign of zero, dynamic result type, error code) with a Fraction / '
            'binary32-binary64 transcription of F&O section 4; the idiv/mod identity is checked engine-only.',
            'Trusted: rv/models/numeric.py, CPython float/Fraction/struct; decimal div compared to 18 significant digits; '
            'float/double underflow and the 2.0-vs-3.1 idiv definitions are left undecided.',
            'DESIGN.md section 4 (C06)'),
    'C07': ('exploration',
            'runtime reference-model monitor: F&O comparability matrix / value-space order / EBV table model + libxml2 for compatibility mode',
            'Value comparisons over the 29x29 type matrix, general comparisons over sequences of length 0-3 with the untypedAtomic '
            'rules, order laws on triples, the EBV table, and/or/not/if, and XPath 1.0 / compatibility-mode comparisons (against libxml2 '
            'and an XPath 1.0 model) are evaluated by the real engine and compared with the model; outcomes the specification leaves '
            'open (true pair + erroring pair, short-circuit, mixed timezone presence) are counted as undecided.',
            'Trusted: rv/models/compare.py, libxml2; sequences homogeneous per side; implicit-timezone cases left to C11.',
            'DESIGN.md section 4 (C07)'),
    'C08': ('exploration',
            'runtime reference-model monitor: definitional F&O list model (typed mini-language evaluator) vs the engine on generated nested programs + engine-only equivalences',
            'Generated programs (comma, to, predicates with position()/last(), for/some/every with several variables and shadowing, the '
            'simple map operator, if, and the sequence/aggregate functions named in the property, nesting depth <= 4, boundary position / '
            'length arguments) are evaluated by the engine (XPath 2.0 and 3.1) and by a typed list-model evaluator; value and dynamic type '
            'are compared; the equivalences of the statement (every/some duality, subsequence vs positional predicate, ...) are checked '
            'engine-against-engine.',
            'Trusted: rv/models/minilang.py; outcomes the specification leaves open (nested errors, imprecise doubles) are undecided.',
            'DESIGN.md section 4 (C08)'),
    'C09': ('exploration',
            'differential runtime monitor: F&O reference string model + libxml2 (XPath 1.0) + engine-only laws on generated Unicode strings',
            'Each generated call of the string functions named in the property (substring with .5/INF/NaN positions, translate, '
            'normalize-space, case mapping, compare/codepoint-equal, codepoints functions, URI escaping, collation variants) is '
            'compared with a direct transcription of the F&O definitions; XPath 1.0 calls are compared with libxml2 (only when '
            'libxml2 and the XPath 1.0 model agree); round-trip and reconstruction laws are checked engine-against-engine; one parsed call '
            'is evaluated over several argument sets (some arguments literal) and must answer like fresh parses.',
            'Trusted: rv/models/strings.py, CPython str case mapping, libxml2; only codepoint and html-ascii collations can run (C locale only).',
            'DESIGN.md section 4 (C09)'),
    'C10': ('exploration',
            'runtime multi-observer agreement monitor: independent XSD lexical recogniser vs constructor / is_valid / castable / cast / xs:T() + casting-table model',
            'For ~45 built-in types and generated valid and near-valid strings, five observers of the real code (datatype constructor, '
            'is_valid, castable as, cast as, xs:T()) must agree with each other and with an independent transcription of the XSD lexical '
            'spaces (XSD 1.0 and 1.1); canonical strings must be fixed points with equal value and hash and equal the XSD/F&O canonical '
            'form; casts over the F&O casting table must agree across the three forms and preserve the value.',
            'Trusted: rv/models/lexical.py; xs:NOTATION skipped; QName limited to simple prefixes; name characters outside an '
            'edition-independent alphabet and XSD 1.0 BCE leap years are undecided.',
            'DESIGN.md section 4 (C10)'),
    'C11': ('exploration',
            'runtime reference-model monitor: integer-only proleptic Gregorian calendar model vs the datatypes API and XPath date/time expressions',
            'Literals, components, string forms, todelta/fromdelta round trips, +/- dayTime and yearMonth durations, differences, '
            'the six comparison operators, adjust-*-to-timezone, component functions and implicit timezones are executed on the real '
            'datatypes API and through XPath 2.0/3.1 under XSD 1.0 and 1.1 (BCE years, years > 9999, 24:00:00, fractions, timezones) '
            'and compared with an integer-only civil-date/day-number model that does not use Python datetime.',
            'Trusted: rv/models/calendar.py; XSD 1.0 BCE leap years, mixed timezone presence without implicit timezone and '
            'overflow beyond the implementation range are undecided.',
            'DESIGN.md section 4 (C11)'),
    'C12': ('exploration',
            'differential runtime monitor: reference XSD/XPath regex parser + backtracking matcher vs re.compile(translate_pattern(P)); engine-only consistency of matches/replace/tokenize/analyze-string',
            'Generated patterns (branches, quantifiers, groups, back-references incl. multi-digit ones, classes with ranges / negation / '
            'subtraction / multi-character and category escapes, flags s m i x q, XSD 1.0/1.1, XPath and XSD anchoring modes) are translated by '
            'the real translate_pattern and matched with Python re on probe subjects; validity and match/no-match are compared with a three-valued '
            'reference (valid / invalid / undecided). fn:matches/replace/tokenize/analyze-string are checked against the reference and against each other.',
            'Trusted: rv/models/xsdregex.py (cross-checked against Python re on the shared sub-language), unicodedata; the i flag only on ASCII '
            'alphabets; XSD 1.0 lone braces, inner hyphens, quantified anchors are undecided; subjects are probes, not all strings.',
            'DESIGN.md section 4 (C12)'),
    'C13': ('exploration',
            'runtime shadow-model monitor over operation histories + exhaustive table comparison with unicodedata',
            'Every UnicodeSubset/CharacterClass state reached by random operation histories is compared, after every '
            'operation, with a bitmask reference model (members, membership at run boundaries, iteration, len, '
            'representation invariant, extensional equality, operand immutability); the installed category tables are '
            'compared exhaustively with unicodedata for all 0x110000 code points. Held on the histories executed, not a proof.',
            'Trusted: the bitmask model, CPython unicodedata; \\i/\\c only on the BMP; block ranges only checked for disjointness.',
            'DESIGN.md section 4 (C13)'),
    'C14': ('exploration',
            'round-trip identity monitor: every node path string produced by the real code is evaluated back and must select exactly its node',
            'For every node of every generated tree (document / element / fragment roots, ElementTree and lxml) the strings returned by '
            'node.path, fn:path (3.0 and 3.1) and etree_iter_paths are evaluated with the XPath 3.0 and 3.1 parsers against the same node '
            'tree and must select exactly that one node (object identity); the set of paths must be as large as the set of nodes.',
            'Oracle is node identity (no model). Trusted: rv/gen_xml.py generators.',
            'DESIGN.md section 4 (C14)'),
    'C15': ('exploration',
            'runtime shadow-model monitor over operation histories: pool of live map/array values paired with dict/list models, immutability re-check after every step',
            'Random histories of map:* / array:* functions, constructors and ? lookups are applied to a pool of live XPathMap/XPathArray '
            'values held as context variables; after every step the result is compared with a dict/list reference model (value, error '
            'code, key identity by op:same-key) and EVERY value already in the pool is re-described and compared with its recorded '
            'model, so an operand modified in place is seen on the very next step.',
            'Trusted: rv/models/maparray.py (F&O 3.1 section 17); order of map:keys/for-each results compared as bags; array:sort and collations left to C16.',
            'DESIGN.md section 4 (C15)'),
    'C16': ('exploration',
            'runtime reference-model monitor: programs over function items evaluated by a Python-closure model vs the engine, call-history templates, engine-only HOF/partial-application equivalences, sort permutation/order/stability monitor',
            'Closure templates create several function items from ONE function expression under different bindings and call them later in random '
            'order and multiplicity; random typed programs mix inline functions, named references, partial applications (every placeholder '
            'pattern, chained) and the higher-order functions; each is evaluated by the engine (3.0/3.1, select and evaluate) and by a model whose '
            'function items are Python closures over an explicit environment. f#n(args)=f(args), partial application, repeated calls and each HOF vs '
            'its definitional expansion are compared engine-against-engine; fn:sort output must be a stable ordered permutation (indexed items).',
            'Trusted: rv/models/funclang.py; only the codepoint collation (C locale); programs returning function items or arrays are undecided.',
            'DESIGN.md section 4 (C16)'),
    'C17': ('exploration',
            'differential runtime monitor: round trips through the real serializers/parsers checked against Python json and an independent XDM deep-equal',
            'Generated JSON-representable XDM values are serialised and parsed back (deep-equal, value model, operand unchanged) and the '
            'text is read by Python json; generated JSON texts in many spellings go through json-to-xml/xml-to-json (both escape '
            'settings) and are compared by meaning; generated element/document nodes (ElementTree and lxml) go through '
            'serialize/parse-xml and are compared by fn:deep-equal and by an independent structural comparison.',
            'Trusted: rv/models/jsonmodel.py, CPython json, libxml2 reading of the serialised XML; numbers compared as nearest doubles.',
            'DESIGN.md section 4 (C17)'),
    'C18': ('exploration',
            'runtime reference-model monitor + return-type contract monitor on every registered function signature',
            'Typed values (ground-truth dynamic type labels from typed constructors, nodes of every kind, functions, maps, arrays) x generated '
            'sequence types are judged by instance of / treat as / match_sequence_type and compared with an independent SequenceType matcher; '
            'the subtype relation is checked for reflexivity, transitivity and soundness against the engine\'s own matcher; every registered '
            'signature of the 2.0/3.0/3.1 parsers is called with generated arguments and each successful result is checked against the '
            'declared return type (signatures never returning successfully are reported in the evidence).',
            'Trusted: rv/models/seqtype.py (XDM type hierarchy, XPath 3.1 2.5.6 subtyping); schema types, xs:error and list types not generated.',
            'DESIGN.md section 4 (C18)'),
    'C19': ('fault_enumeration',
            'fault enumeration with quiescent-point state monitors: simulated installed-locale sets x all collation-call histories of length <= 3; audit hook; thread trials in cold child processes',
            'For each installed-locale configuration (simulated at the locale.setlocale boundary inside elementpath, plus the real C-only '
            'process) ALL histories of up to three collation-using evaluations over 11 call kinds (incl. names setlocale refuses with '
            'ValueError) are executed; after every evaluation the '
            'monitors assert LC_COLLATE restored, the collate lock (replaced by an owner-tracking lock that raises instead of blocking) '
            'not held, decimal context and os.environ unchanged, only ElementPathError raised, and repeated calls give the same answer. '
            'Environment functions (canary variable), 13 DOCTYPE/entity payloads through parse-xml / parse-xml-fragment (audit hook for '
            'file/network access), an ambient corpus plus a generated numeric matrix (decimal context, global random state), child '
            'interpreters under 8 settings of LC_ALL/LC_COLLATE/LANG, and concurrent-vs-sequential Selector trials (incl. locale-switching '
            'collations, LC_COLLATE compared before/after) in fresh child processes complete it.',
            'Simulated locales (the sandbox has only C/POSIX); thread schedules are sampled (switch interval 1e-6), not enumerated: '
            'the concurrency clause is exploration-level.',
            'DESIGN.md section 4 (C19)'),
    'C20': ('exploration',
            'differential runtime monitor: generated XSD schemas and valid instances; typed values vs the schema processor, type tests vs the derivation chain, selection with vs without schema',
            'Generated schemas over the built-in simple types (atomic, list, union, restrictions, simple content with typed attributes, '
            'nillable, default/fixed, xsi:type, repeated model groups) for XSD 1.0 and 1.1 and instances kept only if the schema '
            'validates them are evaluated with the schema proxy: typed values are compared with what xmlschema decodes (value, datatype '
            'class incl. the XSD-version variant), kind tests with the declared derivation chain, arithmetic on typed nodes with the '
            'decoded values, and the node lists of a path corpus with and without the schema.',
            'Trusted: xmlschema 4.3.1 as validator/decoder; defaulted attributes added by the schema are treated as PSVI behaviour (selection '
            'compared against an instance with them materialised); QName/ID types, wildcards and substitution groups not generated.',
            'DESIGN.md section 4 (C20)'),
}

PENDING_REASON = 'check not built yet in this session (runtime-monitoring design exists in DESIGN.md section 4); not claimed until its monitor runs clean'


def main():
    props = [json.loads(line) for line in open(os.path.join(HERE, 'properties.jsonl'))]
    checks = []
    na = []
    for p in props:
        pid = p['id']
        if pid in CHECKS and os.path.exists(os.path.join(HERE, 'rv', 'checks', pid.lower() + '.py')):
            cat, tech, text, note, ref = CHECKS[pid]
            checks.append({
                'property_id': pid,
                'quick_cmd': './check %s quick' % pid,
                'thorough_cmd': './check %s thorough' % pid,
                'evidence_file': 'evidence/%s.json' % pid,
                'replay_cmd_template': './check %s --replay {path}' % pid,
                'engine': 'rv',
                'level_claimed': {'category': cat, 'text': text, 'design_ref': ref},
                'level_note': note,
                'technique': tech,
            })
        else:
            na.append({'property_id': pid, 'reason': PENDING_REASON})
    manifest = {
        'version': 1,
        'setup_cmd': "/venv/bin/python -c \"import lxml.etree, xmlschema, sys; sys.path.insert(0, '/repo'); import elementpath; print('rv ready', elementpath.__version__)\"",
        'hooks': {
            'guard': 'ELEMENTPATH_VERIF',
            'enable': 'no source hooks are needed: the harness wraps public classes/functions from outside; ./check exports ELEMENTPATH_VERIF=1 for future guarded hooks',
            'baseline_off_cmd': 'cd /repo && env -u ELEMENTPATH_VERIF /venv/bin/python -m pytest -ra -q -p no:cacheprovider --timeout=900 --continue-on-collection-errors',
            'source_commits': [],
            'add_only': True,
        },
        'engines': [{
            'name': 'rv', 'path': 'rv/',
            'serves_properties': [c['property_id'] for c in checks],
            'kind_free_text': 'stdlib-only runtime-monitoring harness run under /venv/bin/python against /repo (RV_REPO): '
                              'seeded workload generators, reference-model shadow monitors, invariant hooks, '
                              'three-valued verdicts, replay files, known-findings protocol',
        }],
        'checks': checks,
        'not_applicable': na,
        'notes': 'Exit 0 held / 1 VIOLATION / 2 INCONCLUSIVE (a deciding monitor saw too few events). '
                 'known_findings.json lists genuine defects (known) and repaired ones (fixed: lines). '
                 'VERIF_SEED selects the workload; thorough runs 16 shards.',
    }
    with open(os.path.join(HERE, 'MANIFEST.json'), 'w') as f:
        json.dump(manifest, f, indent=1)
    print('claimed:', [c['property_id'] for c in checks])
    print('not_applicable:', [n['property_id'] for n in na])


if __name__ == '__main__':
    main()
