#!/bin/sh
# usage: tools/try_mutant.sh <patch.diff> <Cnn> [more Cnn...]   -- applies the patch to /repo, runs the quick checks, reverts
patch="$1"; shift
cd /verif || exit 2
if ! git -C /repo diff --quiet; then echo "/repo has uncommitted changes"; exit 2; fi
if ! git -C /repo apply "$patch"; then echo "PATCH DOES NOT APPLY: $patch"; git -C /repo checkout -- . ; exit 3; fi
for c in "$@"; do
  out=$(./check "$c" quick 2>&1); rc=$?
  echo "== $c rc=$rc"; echo "$out" | grep -v "^KNOWN-FINDING" | tail -6 | cut -c1-260
done
git -C /repo checkout -- . ; git -C /repo reset -q 2>/dev/null
git -C /repo status --short | head -3
