#!/usr/bin/env python3
"""Run registered quick checks against every seeded mutant under /verif/seeded/<id>/ and (re)write its meta.json.

  tools/seeded_run.py [Cnn-x ...]        # default: all

For each mutant: git -C /repo apply patch.diff; run demo.py (must fail); run the property's own check (and any extra
checks listed in EXTRA); git -C /repo checkout -- . ; run demo.py again (must pass).  Nothing is committed in /repo.
"""
import json
import os
import subprocess
import sys

V = os.path.dirname(os.path.dirname(os.path.abspath(__file__)))
EXTRA = {'C11-b': ['C05'], 'C03-b': ['C06'], 'C12-b': ['C13'], 'C08-b': ['C05'], 'C16-a': ['C05']}


def sh(cmd, **kw):
    return subprocess.run(cmd, shell=True, capture_output=True, text=True, **kw)


def main():
    ids = sys.argv[1:] or sorted(d for d in os.listdir(V + '/seeded') if os.path.isdir(V + '/seeded/' + d))
    if sh('git -C /repo diff --quiet').returncode != 0:
        print('/repo has uncommitted changes')
        return 2
    head = sh('git -C /repo log --format=%h -1').stdout.strip()
    for mid in ids:
        d = os.path.join(V, 'seeded', mid)
        prop = mid.split('-')[0]
        patch = os.path.join(d, 'patch.diff')
        if sh('git -C /repo apply --check %s' % patch).returncode != 0:
            print(mid, 'PATCH DOES NOT APPLY')
            continue
        sh('git -C /repo apply %s' % patch)
        try:
            demo = sh('PYTHONPATH=/repo /venv/bin/python %s/demo.py' % d, timeout=600)
            tests = sh('cd /repo && /venv/bin/python -m pytest -q -p no:cacheprovider tests 2>&1 | tail -1', timeout=900).stdout.strip()
            results = {}
            for c in [prop] + EXTRA.get(mid, []):
                r = sh('./check %s quick' % c, cwd=V, timeout=1800)
                keys = sorted({ln.split('key=')[1].split(' count=')[0] for ln in r.stdout.splitlines()
                               if ln.startswith(('VIOLATION', '  (also)')) and 'key=' in ln})
                results[c] = {'exit': r.returncode, 'violation_keys': keys[:12]}
        finally:
            sh('git -C /repo checkout -- .')
        clean = sh('PYTHONPATH=/repo /venv/bin/python %s/demo.py' % d, timeout=600)
        notes = open(os.path.join(d, 'notes.md')).read() if os.path.exists(os.path.join(d, 'notes.md')) else ''
        meta = {
            'id': mid, 'breaks_property': prop,
            'needs_to_manifest': ' '.join(notes.split())[:900],
            'applies_to_repo_commit': head,
            'what_was_run': [
                'git -C /repo apply seeded/%s/patch.diff' % mid,
                'repository test suite: %s' % tests,
                'PYTHONPATH=/repo /venv/bin/python seeded/%s/demo.py -> exit %d (with the change)' % (mid, demo.returncode),
                './check <id> quick for: %s' % ', '.join(results),
                'git -C /repo checkout -- .',
                'demo.py on the unchanged tree -> exit %d' % clean.returncode,
            ],
            'test_suite_with_change': tests,
            'demo_exit_with_change': demo.returncode,
            'demo_exit_without_change': clean.returncode,
            'checks': results,
            'caught_by': sorted(c for c, r in results.items() if r['exit'] == 1),
        }
        with open(os.path.join(d, 'meta.json'), 'w') as f:
            json.dump(meta, f, indent=1)
        print(mid, 'tests:', tests[:40], '| demo', demo.returncode, '/', clean.returncode, '| caught by', meta['caught_by'])
    return 0


if __name__ == '__main__':
    sys.exit(main())
