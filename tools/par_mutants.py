#!/usr/bin/env python3
"""Run the quick checks against seeded mutants in parallel, each in its own scratch worktree of /repo's HEAD.

  tools/par_mutants.py [-j N] [--no-tests] [--no-meta] [--extra Cxx,Cyy] [Cnn-x ...]      # default: all of seeded/

Per mutant: `git -C /repo worktree add --detach /tmp/mw/<id>`, `git apply patch.diff` there, the repository's test
suite there, demo.py with and without the change, `RV_REPO=<worktree> RV_OUT=<scratch> ./check <prop> quick` (plus the
checks in EXTRA), then the worktree is removed.  /repo's working tree is never touched, so this can run while other
checks run against /repo; evidence/ and replays/ of /verif are not written (RV_OUT).  Writes seeded/<id>/meta.json.
"""
import concurrent.futures as cf
import json
import os
import shutil
import subprocess
import sys

V = os.path.dirname(os.path.dirname(os.path.abspath(__file__)))
EXTRA = {'C11-b': ['C05'], 'C03-b': ['C06'], 'C12-b': ['C13'], 'C08-b': ['C05'], 'C16-a': ['C05'], 'C04-e': ['C03'], 'C08-h': ['C04'], 'C09-g': ['C05'], 'C11-h': ['C05'], 'C09-i': ['C05']}
SCR = '/tmp/mw'


def sh(cmd, **kw):
    return subprocess.run(cmd, shell=True, capture_output=True, text=True, **kw)


def one(mid, do_tests, extra, do_meta):
    d = os.path.join(V, 'seeded', mid)
    prop = mid.split('-')[0]
    wt = os.path.join(SCR, mid, 'wt')
    out = os.path.join(SCR, mid, 'out')
    shutil.rmtree(os.path.join(SCR, mid), ignore_errors=True)
    os.makedirs(out)
    head = sh('git -C /repo log --format=%h -1').stdout.strip()
    r = sh('git -C /repo worktree add --detach %s HEAD' % wt)
    if r.returncode:
        return mid, 'WORKTREE FAILED ' + r.stderr[-200:]
    try:
        clean = sh('PYTHONPATH=%s /venv/bin/python %s/demo.py' % (wt, d), timeout=900)
        if sh('git -C %s apply %s/patch.diff' % (wt, d)).returncode:
            return mid, 'PATCH DOES NOT APPLY'
        demo = sh('PYTHONPATH=%s /venv/bin/python %s/demo.py' % (wt, d), timeout=900)
        tests = ''
        if do_tests:
            tests = sh('cd %s && /venv/bin/python -m pytest -q -p no:cacheprovider tests 2>&1 | tail -1' % wt,
                       timeout=1800).stdout.strip()
        results = {}
        for c in [prop] + [x for x in EXTRA.get(mid, []) + extra if x != prop]:
            env = dict(os.environ, RV_REPO=wt, RV_OUT=out)
            try:
                r = sh('./check %s quick' % c, cwd=V, timeout=3600, env=env)
                rc, so = r.returncode, r.stdout
            except subprocess.TimeoutExpired:
                rc, so = -9, ''
            keys = sorted({ln.split('key=')[1].split(' count=')[0] for ln in so.splitlines()
                           if ln.startswith(('VIOLATION', '  (also)')) and 'key=' in ln})
            results[c] = {'exit': rc, 'violation_keys': keys[:12]}
            if rc not in (0, 1):
                results[c]['tail'] = (so + r.stderr)[-400:]
    finally:
        sh('git -C /repo worktree remove --force %s' % wt)
        shutil.rmtree(os.path.join(SCR, mid), ignore_errors=True)
    caught = sorted(c for c, r in results.items() if r['exit'] == 1)
    if do_meta:
        notes = open(os.path.join(d, 'notes.md')).read() if os.path.exists(os.path.join(d, 'notes.md')) else ''
        old = {}
        if not do_tests and os.path.exists(os.path.join(d, 'meta.json')):
            old = json.load(open(os.path.join(d, 'meta.json')))
            tests = old.get('test_suite_with_change', '')
        meta = {
            'id': mid, 'breaks_property': prop,
            'needs_to_manifest': ' '.join(notes.split())[:900],
            'applies_to_repo_commit': head,
            'what_was_run': [
                'git -C /repo worktree add --detach <scratch> HEAD   (scratch copy of /repo at %s, removed afterwards)' % head,
                'git -C <scratch> apply seeded/%s/patch.diff' % mid,
                'repository test suite in <scratch>: %s' % tests,
                'PYTHONPATH=<scratch> /venv/bin/python seeded/%s/demo.py -> exit %d (with the change)' % (mid, demo.returncode),
                'RV_REPO=<scratch> ./check <id> quick for: %s' % ', '.join(results),
                'demo.py on the unchanged tree -> exit %d' % clean.returncode,
            ],
            'test_suite_with_change': tests,
            'demo_exit_with_change': demo.returncode,
            'demo_exit_without_change': clean.returncode,
            'checks': results,
            'caught_by': caught,
        }
        with open(os.path.join(d, 'meta.json'), 'w') as f:
            json.dump(meta, f, indent=1)
    bad = {c: r for c, r in results.items() if r['exit'] not in (0, 1)}
    return mid, 'tests: %s | demo %d/%d | caught by %s%s' % (
        tests[:36], demo.returncode, clean.returncode, caught, (' | ODD ' + json.dumps(bad)[:300]) if bad else '')


def main():
    args = sys.argv[1:]
    j = 6
    extra = []
    if '-j' in args:
        i = args.index('-j'); j = int(args[i + 1]); del args[i:i + 2]
    if '--extra' in args:
        i = args.index('--extra'); extra = args[i + 1].split(','); del args[i:i + 2]
    do_tests = '--no-tests' not in args
    do_meta = '--no-meta' not in args
    ids = [a for a in args if not a.startswith('--')] or sorted(
        x for x in os.listdir(V + '/seeded') if os.path.isdir(V + '/seeded/' + x))
    os.makedirs(SCR, exist_ok=True)
    with cf.ThreadPoolExecutor(j) as ex:
        futs = [ex.submit(one, m, do_tests, extra, do_meta) for m in ids]
        for f in cf.as_completed(futs):
            try:
                print(*f.result(), flush=True)
            except Exception as e:      # noqa
                print('ERROR', repr(e), flush=True)
    sh('git -C /repo worktree prune')


if __name__ == '__main__':
    main()
