"""helper for applying one small repo fix at a time with the test-suite gate"""
import subprocess, sys

def run_tests():
    r = subprocess.run('cd /repo && /venv/bin/python -m pytest -q -p no:cacheprovider -x -q tests 2>&1 | tail -1; /venv/bin/python -m pytest -q -p no:cacheprovider tests 2>&1 | tail -1',
                       shell=True, capture_output=True, text=True)
    return r.stdout.strip().splitlines()[-1]

def edit(path, pairs):
    p = '/repo/' + path
    s = open(p).read()
    for old, new in pairs:
        if old not in s:
            raise SystemExit('pattern not found in %s:\n%s' % (path, old))
        s = s.replace(old, new, 1)
    open(p, 'w').write(s)

def commit(msg):
    res = run_tests()
    print(res)
    if '24 failed, 2578 passed' in res:
        subprocess.run(['git', '-C', '/repo', 'commit', '-qam', msg])
        h = subprocess.run(['git', '-C', '/repo', 'log', '--format=%h', '-1'], capture_output=True, text=True).stdout.strip()
        print('committed', h, msg.splitlines()[0])
        return h
    subprocess.run(['git', '-C', '/repo', 'checkout', '--', '.'])
    print('REVERTED (tests differ):', msg.splitlines()[0])
    return None
