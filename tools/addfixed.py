#!/usr/bin/env python3
"""tools/addfixed.py Cnn <commit> <what failed>  -- record a repaired defect in known_findings.json"""
import json, sys, os
V = os.path.dirname(os.path.dirname(os.path.abspath(__file__)))
prop, commit, what = sys.argv[1], sys.argv[2], sys.argv[3]
d = json.load(open(V + '/known_findings.json'))
d['findings'].append({'status': 'fixed', 'property': prop, 'commit': commit, 'what': what,
                      'line': 'fixed: property=%s %s %s' % (prop, commit, what)})
json.dump(d, open(V + '/known_findings.json', 'w'), indent=1)
