#!/usr/bin/env python3
"""Development-time helper (never run by a check): run a check over a few seeds, list the unlisted
violation keys with their shrunk witnesses, and optionally append them to known_findings.json as
`known` entries after a human has read the list.

  tools/adopt.py Cnn                 # list
  tools/adopt.py Cnn --write [--only substring] [--note "text appended to every 'what'"]
"""
import glob
import json
import os
import subprocess
import sys

VERIF = os.path.dirname(os.path.dirname(os.path.abspath(__file__)))


def main():
    prop = sys.argv[1].upper()
    write = '--write' in sys.argv
    only = sys.argv[sys.argv.index('--only') + 1] if '--only' in sys.argv else None
    note = sys.argv[sys.argv.index('--note') + 1] if '--note' in sys.argv else ''
    seeds = sys.argv[sys.argv.index('--seeds') + 1].split(',') if '--seeds' in sys.argv else ['0', '1', '2']
    tier = sys.argv[sys.argv.index('--tier') + 1] if '--tier' in sys.argv else 'quick'
    found = {}
    counts = {}
    for seed in seeds:
        for f in glob.glob(os.path.join(VERIF, 'replays', prop, '*.json')):
            os.remove(f)
        env = dict(os.environ, VERIF_SEED=seed)
        r = subprocess.run(['./check', prop, tier], cwd=VERIF, env=env, capture_output=True, text=True)
        for line in r.stdout.splitlines():
            if line.startswith('VIOLATION') or line.startswith('  (also)'):
                key = line.split('key=')[1].split(' count=')[0]
                counts[key] = counts.get(key, 0) + int(line.split('count=')[1])
            if line.startswith('INCONCLUSIVE') or 'Traceback' in line:
                print(line)
        for f in glob.glob(os.path.join(VERIF, 'replays', prop, '*.json')):
            d = json.load(open(f))
            found.setdefault(d['key'], d)
        print('seed', seed, r.stdout.strip().splitlines()[-1 if r.returncode == 0 else 0][:160] if r.stdout.strip() else r.stderr[-300:])
    keys = sorted(counts)
    print('%d unlisted keys' % len(keys))
    kf = json.load(open(os.path.join(VERIF, 'known_findings.json')))
    for k in keys:
        d = found.get(k)
        print('-' * 100)
        print(k, 'count=%d' % counts[k])
        if d is None:
            print('   (no replay witness recorded)')
            continue
        print('   witness:', json.dumps({'kind': d['kind'], 'case': d['case']})[:600])
        print('   detail :', str(d['detail'])[:500])
        if write and (only is None or only in k):
            kf['findings'].append({'status': 'known', 'property': prop, 'key': k,
                                   'what': (str(d['detail'])[:300] + (' -- ' + note if note else '')),
                                   'witness': {'kind': d['kind'], 'case': d['case']}})
    if write:
        json.dump(kf, open(os.path.join(VERIF, 'known_findings.json'), 'w'), indent=1)
        print('known_findings.json updated')


if __name__ == '__main__':
    main()
